-------------------------------- MODULE IFTCff --------------------------------
(***************************************************************************)
(* Glyph keyed patches on CFF / CFF2 charstrings (IFT "Applying glyph      *)
(* keyed patches": the CharStrings INDEX is rebuilt with the replaced      *)
(* glyph data; "offsets stay ascending, widening when needed").            *)
(* A CFF INDEX stores offsets with a bias of 1, so an offset array of      *)
(* `offSize` bytes can describe at most 256^offSize - 2 bytes of data.     *)
(* Family: one charstring replaced so that the total charstring data is    *)
(* `total` bytes, for totals on both sides of each widening threshold.     *)
(***************************************************************************)
EXTENDS Integers, Sequences, TraceIO

NeededOffSize(total) == IF total + 1 <= 255 THEN 1 ELSE IF total + 1 <= 65535 THEN 2 ELSE IF total + 1 <= 16777215 THEN 3 ELSE 4

\* one application: the patched INDEX has the same number of objects, the listed glyph's data is the patch's, every
\* other glyph's data, everything before the INDEX and every other table are unchanged, offsets ascend and fit
TCff ==
  /\ IsEvent("cff")
  /\ Ev.ok                                         \* a well-formed patch applies
  /\ Ev.off_size >= NeededOffSize(Ev.total)        \* ... widening the offsets when needed
  /\ Ev.off_size <= 4
  /\ Ev.total_read = Ev.total
  /\ Ev.count_same /\ Ev.glyph_replaced /\ Ev.others_unchanged /\ Ev.ascending /\ Ev.prefix_unchanged /\ Ev.tables_unchanged
  /\ Ev.applied_marked
\* glyf with short loca / gvar with short offsets: offsets stored divided by two reach 131070 bytes. Up to there a well-formed
\* patch applies; beyond, gvar widens to long offsets, and glyf (whose offset format lives in head) is either refused with the
\* caller's bookkeeping untouched or written with long offsets - never written short.
ShortReach == 131070
TSizes ==
  /\ IsEvent("sizes")
  /\ Ev.uris >= 1
  /\ Ev.total <= ShortReach => Ev.ok
  /\ Ev.kind = "gvar" => Ev.ok
  /\ Ev.ok => /\ Ev.data_ok /\ Ev.marked
              /\ Ev.total > ShortReach => Ev.long
  /\ ~Ev.ok => Ev.status_untouched
TInit == l = 1
TraceSpec == TInit /\ [][TCff \/ TSizes]_l
=============================================================================
