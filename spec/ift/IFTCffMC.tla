------------------------------- MODULE IFTCffMC -------------------------------
(* The totals on both sides of each widening threshold, for the replaced glyph 1 and for the last glyph. *)
EXTENDS Integers, TLC, Json
VARIABLES total, which
Totals == {200, 253, 254, 255, 256, 65533, 65534, 65535, 65536, 65600, 70000}
Init == total \in Totals /\ which \in {"first", "last"}
Spec == Init /\ [][UNCHANGED <<total, which>>]_<<total, which>>
Dump == PrintT(<<"CFFCASE", ToJson([total |-> total, which |-> which])>>)
=============================================================================
