------------------------------ MODULE IFTEnum ------------------------------
(***************************************************************************)
(* Exhaustive enumeration of a small family of mapping tables x subset     *)
(* definitions.  TLC evaluates the specification's answers (offered URIs,  *)
(* allowed groups) for every member, checks the structural and metamorphic *)
(* statements of C19 on each, and exports one CASE line per member for     *)
(* replay on intersecting_patches / PatchGroup::select_next_patches.       *)
(***************************************************************************)
EXTENDS IFT, Json, SequencesExt

CONSTANTS Fonts, Defs          \* sets
VARIABLES font, def
Init == font \in Fonts /\ def \in Defs
Next == UNCHANGED <<font, def>>
Spec == Init /\ [][Next]_<<font, def>>

AllDef == [cps |-> 0..7, feats |-> {}, ds |-> {}, fall |-> TRUE, dall |-> TRUE]

GroupsOK == OfferedUris(font, def) # {} => \A g \in Groups(font, def) : GroupOK(font, def, g)
SomeGroup == (OfferedUris(font, def) # {} /\ ~SameCompat(font)) => Groups(font, def) # {}
Monotone == \A d2 \in Defs : DefLeq(def, d2) => OfferedUris(font, def) \subseteq OfferedUris(font, d2)
ContainedInAll == OfferedUris(font, def) \subseteq OfferedUris(font, AllDef)

SetSeq(S) == SetToSeq(S)
JE(e) == [cps |-> SetSeq(e.cps), feats |-> SetSeq(e.feats), ds |-> SetSeq(e.ds), kids |-> SetSeq(e.kids),
          conj |-> e.conj, ign |-> e.ign, fmt |-> e.fmt, id |-> e.id]
JT(t) == IF IsTable(t) THEN [compat |-> t.compat, tmpl |-> t.tmpl, entries |-> [i \in DOMAIN t.entries |-> JE(t.entries[i])]]
         ELSE [none |-> TRUE]
JF(f) == [ift |-> JT(f.ift), iftx |-> JT(f.iftx)]
JD(x) == [cps |-> SetSeq(x.cps), feats |-> SetSeq(x.feats), ds |-> SetSeq(x.ds), fall |-> x.fall, dall |-> x.dall]

CaseDump == PrintT(<<"CASE", ToJson([font |-> JF(font), def |-> JD(def),
               offered |-> SetSeq(OfferedUris(font, def)),
               offered_all |-> SetSeq(OfferedUris(font, AllDef)),
               res |-> IF OfferedUris(font, def) = {} THEN "none" ELSE IF SameCompat(font) THEN "same-compat" ELSE "group",
               groups |-> IF OfferedUris(font, def) = {} \/ SameCompat(font) THEN <<>>
                          ELSE SetSeq({SetSeq(GroupUris(g)) : g \in Groups(font, def)})])>>)
=============================================================================
