----------------------------- MODULE IFTExtend -----------------------------
(***************************************************************************)
(* The extension loop  select -> fetch -> apply  as a state machine over   *)
(* chains of font generations: a table keyed patch installs the next       *)
(* generation's mapping tables, glyph keyed patches set applied bits.      *)
(* Checked: every successful round applies a URI never applied before,     *)
(* the group obeys the structural rules, and the loop terminates.          *)
(***************************************************************************)
EXTENDS IFT, Json, SequencesExt

CONSTANTS Chains,   \* set of chains; chain = sequence of fonts (generations)
          Defs      \* set of subset definitions

VARIABLES chain, def, gen, font, applied, result, rounds, last

vars == <<chain, def, gen, font, applied, result, rounds, last>>

Init == /\ chain \in Chains /\ def \in Defs
        /\ gen = 1 /\ font = chain[1]
        /\ applied = {} /\ result = "run" /\ rounds = 0 /\ last = [res |-> "init"]

D == def

Round ==
  /\ result = "run"
  /\ rounds' = rounds + 1
  /\ IF OfferedUris(font, D) = {}
     THEN result' = "done" /\ last' = [res |-> "done"] /\ UNCHANGED <<gen, font, applied>>
     ELSE IF SameCompat(font)
     THEN result' = "error" /\ last' = [res |-> "same-compat"] /\ UNCHANGED <<gen, font, applied>>
     ELSE \E g \in Groups(font, D) :
            LET a == ApplyNext(g, applied) IN
            /\ last' = [res |-> a.res, group |-> g, new |-> a.new]
            /\ applied' = applied \cup a.new
            /\ CASE a.res = "table" ->
                      IF gen < Len(chain)
                      THEN gen' = gen + 1 /\ font' = chain[gen + 1] /\ result' = "run"
                      ELSE \* the server has no further generation: the patch drops the mapping tables
                           gen' = gen /\ font' = [ift |-> NoTable, iftx |-> NoTable] /\ result' = "run"
                 [] a.res = "glyph" -> gen' = gen /\ font' = MarkGlyph(font, D, g, applied) /\ result' = "run"
                 [] a.res = "error" -> gen' = gen /\ font' = font /\ result' = "error"
  /\ UNCHANGED <<chain, def>>

Next == Round
Spec == Init /\ [][Next]_vars /\ WF_vars(Next)

\* C19: structure of every selectable group
GroupsOK == result = "run" => \A g \in Groups(font, D) : GroupOK(font, D, g)
\* C19: each successful round applies at least one URI never applied before
Progress == [][(result' = "run" /\ rounds' > rounds) => (applied' # applied /\ applied \subseteq applied')]_vars
MarksOK == [][(last'.res = "glyph") => MarkOK(font, font', D, last'.group, applied)]_vars
Terminates == <>(result # "run")
\* monotonicity of the offered set in the definition (on the catalogue)
Monotone == \A d1, d2 \in Defs : DefLeq(d1, d2) => OfferedUris(font, d1) \subseteq OfferedUris(font, d2)
AllDef == [cps |-> 0..7, feats |-> {}, ds |-> {}, fall |-> TRUE, dall |-> TRUE]
ContainedInAll == \A d1 \in Defs : OfferedUris(font, d1) \subseteq OfferedUris(font, AllDef)

\* JSON forms (sets as sequences) for the harness
SetSeq(S) == SetToSeq(S)
JE(e) == [cps |-> SetSeq(e.cps), feats |-> SetSeq(e.feats), ds |-> SetSeq(e.ds), kids |-> SetSeq(e.kids),
          conj |-> e.conj, ign |-> e.ign, fmt |-> e.fmt, id |-> e.id]
JT(t) == IF IsTable(t) THEN [compat |-> t.compat, tmpl |-> t.tmpl, entries |-> [i \in DOMAIN t.entries |-> JE(t.entries[i])]]
         ELSE [none |-> TRUE]
JF(f) == [ift |-> JT(f.ift), iftx |-> JT(f.iftx)]
JD(x) == [cps |-> SetSeq(x.cps), feats |-> SetSeq(x.feats), ds |-> SetSeq(x.ds), fall |-> x.fall, dall |-> x.dall]
\* one LOOP line per initial state: the (chain, definition) pairs the harness must run
LoopDump == (rounds = 0) => PrintT(<<"LOOP", ToJson([kind |-> "loop", chain |-> [i \in DOMAIN chain |-> JF(chain[i])], def |-> JD(def)])>>)

\* export: one line per explored round
EdgeDump == TRUE
=============================================================================
