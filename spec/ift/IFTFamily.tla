----------------------------- MODULE IFTFamily -----------------------------
(* The small families of entries / tables / definitions used by the MC     *)
(* configurations of IFTEnum and IFTExtend.                                *)
EXTENDS Integers, Sequences, FiniteSets
NoT == [none |-> TRUE]

E(cps, feats, ds, kids, conj, ign, fmt, id) ==
  [cps |-> cps, feats |-> feats, ds |-> ds, kids |-> kids, conj |-> conj, ign |-> ign, fmt |-> fmt, id |-> id]

\* ---- quick family -------------------------------------------------------
E1q == {E(c, f, s, {}, FALSE, i, m, 1) : c \in {{}, {0}, {0, 1}}, f \in {{}, {0}}, s \in {{}, {<<0, 1>>}},
                                        i \in BOOLEAN, m \in {"glyph", "part"}}
E2q == {E(c, {}, s, k, j, FALSE, m, n) : c \in {{}, {1}}, s \in {{}, {<<1, 2>>}}, k \in {{}, {1}}, j \in BOOLEAN,
                                        m \in {"glyph", "part", "full"}, n \in {1, 2}}
\* drop meaningless duplicates (conj without children) and same URI with two formats
OkPair(a, b) == (b.kids = {} => ~b.conj) /\ (a.id = b.id => a.fmt = b.fmt)
IftQ == {[compat |-> 1, tmpl |-> "A", entries |-> <<a, b>>] : a \in E1q, b \in {x \in E2q : TRUE}}
IftQok == {t \in IftQ : OkPair(t.entries[1], t.entries[2])}
IftxQ == {NoT,
          [compat |-> 2, tmpl |-> "A", entries |-> <<E({0}, {}, {}, {}, FALSE, FALSE, "glyph", 1)>>],
          [compat |-> 2, tmpl |-> "A", entries |-> <<E({0, 1}, {}, {}, {}, FALSE, FALSE, "part", 2)>>],
          [compat |-> 2, tmpl |-> "B", entries |-> <<E({1}, {}, {}, {}, FALSE, FALSE, "full", 3)>>]}
\* the URI <<"A", id>> may appear in both tables: formats must agree
Compatible(t, x) == x = NoT \/ x.tmpl # t.tmpl \/
                    \A i \in DOMAIN t.entries : t.entries[i].id = x.entries[1].id => t.entries[i].fmt = x.entries[1].fmt
FontsQ == {[ift |-> t, iftx |-> x] : t \in IftQok, x \in IftxQ}
FontsQok == {f \in FontsQ : Compatible(f.ift, f.iftx)}
DefsQ == {[cps |-> c, feats |-> f[1], ds |-> s[1], fall |-> f[2], dall |-> s[2]] :
            c \in {{}, {0}, {1}, {0, 1}},
            f \in {<<{}, FALSE>>, <<{0}, FALSE>>, <<{}, TRUE>>},
            s \in {<<{}, FALSE>>, <<{<<1, 1>>}, FALSE>>, <<{}, TRUE>>}}

\* quick sub-family: first entry always an un-applied glyph keyed one, 12 definitions
FontsQquick == {f \in FontsQok : f.ift.entries[1].fmt = "glyph" /\ ~f.ift.entries[1].ign}
DefsQquick == {[cps |-> c, feats |-> x[1], ds |-> x[2], fall |-> x[3], dall |-> x[4]] :
            c \in {{}, {0}, {0, 1}},
            x \in {<<{}, {}, FALSE, FALSE>>, <<{0}, {<<1, 1>>}, FALSE, FALSE>>, <<{}, {}, TRUE, TRUE>>, <<{}, {}, FALSE, TRUE>>}}

\* two design axes (glyph keyed entries only): one shared axis with overlapping segments is enough, whatever the other
\* axis says; axes named by one side only are ignored; no shared axis at all is no match
SegsAx == {{}, {<<0, 1, 0>>}, {<<0, 1, 1>>}, {<<0, 1, 0>>, <<3, 4, 1>>}, {<<3, 4, 0>>, <<0, 1, 1>>}, {<<0, 1, 0>>, <<0, 1, 1>>}, {<<3, 4, 0>>, <<3, 4, 1>>}}
FontsAx == {[ift |-> [compat |-> 1, tmpl |-> "A", entries |-> <<E({}, {}, s1, {}, FALSE, FALSE, "glyph", 1), E(c, {}, s2, k[1], k[2], FALSE, "glyph", 2)>>],
             iftx |-> NoT] : s1 \in SegsAx, s2 \in SegsAx, c \in {{}, {1}}, k \in {<<{}, FALSE>>, <<{1}, FALSE>>, <<{1}, TRUE>>}}
DefsAx == {[cps |-> {0}, feats |-> {}, ds |-> s, fall |-> FALSE, dall |-> a] :
             s \in SegsAx \cup {{<<1, 3, 0>>, <<1, 3, 1>>}, {<<5, 6, 0>>, <<0, 0, 1>>}, {<<2, 2, 1>>}}, a \in BOOLEAN}

\* string ids (the table carries id string data; an entry without a length field repeats the id of the entry before it,
\* the first one the empty string): three entries with ids over {<<>>, <<1>>, <<1, 2>>, <<255>>}, the same URI may occur twice
SidSet == {<<>>, <<1>>, <<1, 2>>, <<255>>}
FontsSid == {[ift |-> [compat |-> 1, tmpl |-> "A", entries |-> <<E({0}, {}, {}, {}, FALSE, i1, "glyph", a), E(c, {}, {}, {}, FALSE, FALSE, m, b),
                                                                 E({1}, {}, {}, k, FALSE, FALSE, m, d)>>],
              iftx |-> NoT] : a \in SidSet, b \in SidSet, d \in SidSet, c \in {{}, {1}}, i1 \in BOOLEAN, m \in {"glyph", "part"}, k \in {{}, {2}}}
FontsSidOk == {f \in FontsSid : \A x, y \in 1..3 : f.ift.entries[x].id = f.ift.entries[y].id => f.ift.entries[x].fmt = f.ift.entries[y].fmt}
DefsSid == {[cps |-> c, feats |-> {}, ds |-> {}, fall |-> FALSE, dall |-> FALSE] : c \in {{}, {0}, {1}, {0, 1}}}

\* intersection sizes on the design axis: two invalidating entries that tie on code points and features and differ in how
\* much of the definition's segments their own (possibly several, disjoint) segments cover - the larger total length wins,
\* not the larger span
SegSets == {{<<0, 1>>, <<5, 6>>}, {<<2, 5>>}, {<<0, 6>>}, {<<0, 1>>}, {<<0, 2>>, <<4, 6>>}, {<<3, 3>>, <<1, 2>>}}
FontsSeg == {[ift |-> [compat |-> 1, tmpl |-> "A", entries |-> <<E({0}, {}, s1, {}, FALSE, FALSE, "part", 1), E({0}, {}, s2, {}, FALSE, FALSE, "part", 2)>>],
              iftx |-> NoT] : s1 \in SegSets, s2 \in SegSets}
DefsSeg == {[cps |-> {0}, feats |-> {}, ds |-> s, fall |-> FALSE, dall |-> a] : s \in {{<<0, 6>>}, {<<0, 2>>}, {<<1, 5>>}, {<<0, 0>>, <<6, 6>>}}, a \in BOOLEAN}

\* invalidating entries sharing URIs inside one table (three entries, sizes 1..3, ids 1..2), optionally
\* mirrored in IFTX: exercises de-duplication together with the largest-intersection rule
P3(c, n, m) == E(c, {}, {}, {}, FALSE, FALSE, m, n)
TabsDup == {[compat |-> 1, tmpl |-> "A", entries |-> <<P3(c1, n1, m), P3(c2, n2, m), P3(c3, n3, m)>>] :
              c1 \in {{0}, {0, 1}, {0, 1, 2}}, c2 \in {{0}, {0, 1}, {0, 1, 2}}, c3 \in {{0}, {0, 1}, {0, 1, 2}},
              n1 \in {1, 2}, n2 \in {1, 2}, n3 \in {1, 2}, m \in {"part", "full"}}
FontsDup == {[ift |-> t, iftx |-> NoT] : t \in TabsDup} \cup
            {[ift |-> t, iftx |-> [compat |-> 2, tmpl |-> t.tmpl, entries |-> t.entries]] : t \in {x \in TabsDup : x.entries[1].fmt = "part"}}
DefsDup == {[cps |-> c, feats |-> {}, ds |-> {}, fall |-> FALSE, dall |-> FALSE] : c \in {{0}, {0, 1, 2}, {1, 2}}}

\* ---- chains for the extension loop ---------------------------------------
G(c, k, i, m, n) == E(c, {}, {}, k, FALSE, i, m, n)
TabsX == {[compat |-> 1, tmpl |-> "A", entries |-> <<a, b>>] :
            a \in {G({0}, {}, FALSE, "glyph", 1), G({0}, {}, FALSE, "part", 3), G({0, 1}, {}, TRUE, "glyph", 1)},
            b \in {G({0}, {}, FALSE, "glyph", 1), G({1}, {}, FALSE, "glyph", 2), G({0, 1}, {1}, FALSE, "part", 3),
                   G({1}, {}, FALSE, "full", 4)}}
TabsXX == {NoT, [compat |-> 2, tmpl |-> "A", entries |-> <<G({0}, {}, FALSE, "glyph", 2)>>],
                [compat |-> 2, tmpl |-> "A", entries |-> <<G({0, 1}, {}, FALSE, "part", 3)>>],
                [compat |-> 2, tmpl |-> "B", entries |-> <<G({1}, {}, FALSE, "full", 4), G({0}, {}, FALSE, "glyph", 1)>>]}
OkTab(t) == \A i, j \in DOMAIN t.entries : t.entries[i].id = t.entries[j].id => t.entries[i].fmt = t.entries[j].fmt
FontsX == {[ift |-> t, iftx |-> x] : t \in {y \in TabsX : OkTab(y)}, x \in TabsXX}
FmtOf(f) == {<<t.tmpl, t.entries[i].id, t.entries[i].fmt>> : t \in {f.ift, f.iftx} \ {NoT}, i \in {1, 2}}
UriFmts(f) == LET ts == {f.ift, f.iftx} \ {NoT} IN
              UNION {{<<t.tmpl, t.entries[i].id, t.entries[i].fmt>> : i \in DOMAIN t.entries} : t \in ts}
Consistent(S) == \A a, b \in S : (a[1] = b[1] /\ a[2] = b[2]) => a[3] = b[3]
FontsXok == {f \in FontsX : Consistent(UriFmts(f))}
ChainsX1 == {<<a>> : a \in FontsXok}
ChainsX2 == {<<a, b>> : a \in FontsXok, b \in FontsXok}
ChainsX2ok == {c \in ChainsX2 : Consistent(UriFmts(c[1]) \cup UriFmts(c[2]))}
DefsX == {[cps |-> c, feats |-> {}, ds |-> {}, fall |-> FALSE, dall |-> FALSE] : c \in {{0}, {1}, {0, 1}}}
=============================================================================
