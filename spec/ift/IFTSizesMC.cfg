SPECIFICATION Spec
INVARIANT Dump
CHECK_DEADLOCK FALSE
