------------------------------ MODULE IFTSizesMC ------------------------------
(* glyf (short loca) / gvar (short offsets) glyph keyed patches: table totals on both sides of 131070 bytes, the reach of
   16-bit offsets that are stored divided by two; the rule is IFTCff!TSizes. *)
EXTENDS Integers, TLC, Json
VARIABLES kind, total
SizeTotals == {1000, 65534, 65536, 65538, 70000, 131066, 131068, 131070, 131072, 131074, 140000}
Init == kind \in {"glyf", "gvar"} /\ total \in SizeTotals
Spec == Init /\ [][UNCHANGED <<kind, total>>]_<<kind, total>>
Dump == PrintT(<<"SIZECASE", ToJson([kind |-> kind, total |-> total])>>)
=============================================================================
