------------------------------ MODULE IFTTrace ------------------------------
(***************************************************************************)
(* Trace validation for the IFT client.  Events recorded from the real     *)
(* code on synthesised fonts (abstract mapping tables encoded as real      *)
(* 'IFT '/'IFTX' bytes by the harness):                                    *)
(*   select : one intersecting_patches + select_next_patches call          *)
(*   start  : beginning of an extension loop on a chain of generations     *)
(*   round  : one select / fetch / apply_next_patches round                *)
(* Every observation must be what IFT.tla allows.                          *)
(***************************************************************************)
EXTENDS IFT, TraceIO

VARIABLES chainv, gen, font, d, applied

SeqAsSet(q) == {q[i] : i \in DOMAIN q}
SegOf(x) == IF Len(x) = 3 THEN <<x[1], x[2], x[3]>> ELSE <<x[1], x[2]>>
JEntry(e) == [cps |-> SeqAsSet(e.cps), feats |-> SeqAsSet(e.feats),
              ds |-> {SegOf(e.ds[i]) : i \in DOMAIN e.ds},
              kids |-> SeqAsSet(e.kids), conj |-> e.conj, ign |-> e.ign, fmt |-> e.fmt, id |-> e.id]
JTable(t) == IF "none" \in DOMAIN t THEN NoTable
             ELSE [compat |-> t.compat, tmpl |-> t.tmpl, entries |-> [i \in DOMAIN t.entries |-> JEntry(t.entries[i])]]
JFont(f) == [ift |-> JTable(f.ift), iftx |-> JTable(f.iftx)]
JDef(x) == [cps |-> SeqAsSet(x.cps), feats |-> SeqAsSet(x.feats),
            ds |-> {SegOf(x.ds[i]) : i \in DOMAIN x.ds}, fall |-> x.fall, dall |-> x.dall]
JUris(q) == {<<q[i][1], q[i][2]>> : i \in DOMAIN q}
NoFont == [ift |-> NoTable, iftx |-> NoTable]
WithIgn(t, bits) == IF ~IsTable(t) THEN t
                    ELSE [t EXCEPT !.entries = [i \in DOMAIN t.entries |-> [t.entries[i] EXCEPT !.ign = bits[i]]]]

TInit == l = 1 /\ chainv = <<>> /\ gen = 0 /\ font = NoFont /\ d = [cps |-> {}, feats |-> {}, ds |-> {}, fall |-> FALSE, dall |-> FALSE] /\ applied = {}

\* a single selection on a font
TSelect ==
  /\ IsEvent("select")
  /\ LET f == JFont(Ev.font) dd == JDef(Ev.def) IN
     /\ JUris(Ev.offered) = OfferedUris(f, dd)
     /\ IF OfferedUris(f, dd) = {} THEN Ev.res = "none"
        ELSE IF SameCompat(f) THEN Ev.res = "same-compat"
        ELSE /\ Ev.res = "group"
             /\ \E g \in Groups(f, dd) : GroupUris(g) = JUris(Ev.group) /\ GroupOK(f, dd, g)
     \* metamorphic: contained in what the all-inclusive definition is offered, and monotone
     /\ JUris(Ev.offered) \subseteq JUris(Ev.offered_all)
     /\ JUris(Ev.offered_all) = OfferedUris(f, [cps |-> 0..7, feats |-> {}, ds |-> {}, fall |-> TRUE, dall |-> TRUE])
  /\ UNCHANGED <<chainv, gen, font, d, applied>>

TStart ==
  /\ IsEvent("start")
  /\ chainv' = [i \in DOMAIN Ev.chain |-> JFont(Ev.chain[i])]
  /\ gen' = 1 /\ font' = JFont(Ev.chain[1]) /\ d' = JDef(Ev.def) /\ applied' = {}

TRound ==
  /\ IsEvent("round")
  /\ UNCHANGED <<chainv, d>>
  /\ IF OfferedUris(font, d) = {}
     THEN Ev.res = "done" /\ UNCHANGED <<gen, font, applied>>
     ELSE IF SameCompat(font)
     THEN Ev.res = "same-compat" /\ UNCHANGED <<gen, font, applied>>
     ELSE \E g \in Groups(font, d) :
            LET a == ApplyNext(g, applied) IN
            /\ GroupUris(g) = JUris(Ev.uris)
            /\ GroupOK(font, d, g)
            /\ a.res = Ev.res
            /\ applied' = applied \cup a.new
            /\ applied' = JUris(Ev.applied)                  \* the caller's bookkeeping
            /\ (a.res # "error") => applied' # applied       \* progress
            /\ CASE a.res = "table" ->
                      IF gen < Len(chainv) THEN gen' = gen + 1 /\ font' = chainv[gen + 1]
                      ELSE gen' = gen /\ font' = NoFont
                 [] a.res = "glyph" ->
                      /\ gen' = gen
                      /\ font' = [ift |-> WithIgn(font.ift, Ev.ign.ift), iftx |-> WithIgn(font.iftx, Ev.ign.iftx)]
                      /\ MarkOK(font, font', d, g, applied)
                 [] a.res = "error" -> UNCHANGED <<gen, font>>

TNext == TSelect \/ TStart \/ TRound
TraceSpec == TInit /\ [][TNext]_<<l, chainv, gen, font, d, applied>>
=============================================================================
