---- MODULE MC_IFTEnum ----
EXTENDS IFTEnum
F == INSTANCE IFTFamily
MCFonts == F!FontsQok
MCDefs == F!DefsQ
====
