---- MODULE MC_IFTEnumAx ----
EXTENDS IFTEnum
F == INSTANCE IFTFamily
MCFonts == F!FontsAx
MCDefs == F!DefsAx
====
