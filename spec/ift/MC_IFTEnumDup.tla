---- MODULE MC_IFTEnumDup ----
EXTENDS IFTEnum
F == INSTANCE IFTFamily
MCFonts == F!FontsDup
MCDefs == F!DefsDup
====
