---- MODULE MC_IFTEnumQuick ----
EXTENDS IFTEnum
F == INSTANCE IFTFamily
MCFonts == F!FontsQquick
MCDefs == F!DefsQquick
====
