SPECIFICATION Spec
CONSTANTS
  Fonts <- MCFonts
  Defs <- MCDefs
INVARIANTS GroupsOK SomeGroup Monotone ContainedInAll CaseDump
CHECK_DEADLOCK FALSE
