---- MODULE MC_IFTEnumSeg ----
EXTENDS IFTEnum
F == INSTANCE IFTFamily
MCFonts == F!FontsSeg
MCDefs == F!DefsSeg
====
