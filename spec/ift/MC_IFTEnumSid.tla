---- MODULE MC_IFTEnumSid ----
EXTENDS IFTEnum
F == INSTANCE IFTFamily
MCFonts == F!FontsSidOk
MCDefs == F!DefsSid
====
