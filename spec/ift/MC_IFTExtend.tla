---- MODULE MC_IFTExtend ----
EXTENDS IFTExtend
F == INSTANCE IFTFamily
MCChains1 == F!ChainsX1
MCChains2 == F!ChainsX1 \cup F!ChainsX2ok
MCDefs == F!DefsX
====
