SPECIFICATION Spec
CONSTANTS
  Chains <- MCChains1
  Defs <- MCDefs
INVARIANTS GroupsOK Monotone ContainedInAll LoopDump
PROPERTIES Progress MarksOK Terminates
CHECK_DEADLOCK FALSE
