SPECIFICATION Spec
CONSTANTS
  Chains <- MCChains2
  Defs <- MCDefs
INVARIANTS GroupsOK Monotone ContainedInAll LoopDump
PROPERTIES Progress MarksOK Terminates
CHECK_DEADLOCK FALSE
