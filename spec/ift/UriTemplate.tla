---------------------------- MODULE UriTemplate ----------------------------
(***************************************************************************)
(* URI template expansion of the IFT client                                *)
(* (incremental-font-transfer/src/uri_templates.rs), the RFC 6570 level 1  *)
(* subset the IFT specification allows, with the variables id, id64, d1,   *)
(* d2, d3, d4.  The code is a byte-driven state machine (literal / first   *)
(* and second digit of a percent triplet / inside an expression, matching  *)
(* a variable name); this module is the same machine, one Step per byte,   *)
(* over byte values, with the byte classes written from RFC 6570 sections  *)
(* 1.5 and 2.1 and the id encodings (base32hex without padding, base64url  *)
(* with padding, percent-encoded where needed) written from RFC 4648.      *)
(* TLC runs it on every template over a small alphabet and exports the     *)
(* verdict and the expansion for replay on PatchUri::uri_string.           *)
(***************************************************************************)
EXTENDS Integers, Sequences, FiniteSets

\* ---- byte classes -----------------------------------------------------------------------------
Alpha(b) == (b >= 65 /\ b <= 90) \/ (b >= 97 /\ b <= 122)
Digit(b) == b >= 48 /\ b <= 57
HexDigit(b) == Digit(b) \/ (b >= 65 /\ b <= 70) \/ (b >= 97 /\ b <= 102)
Unreserved(b) == Alpha(b) \/ Digit(b) \/ b \in {45, 46, 95, 126}                       \* - . _ ~
Reserved(b) == b \in {58, 47, 63, 35, 91, 93, 64, 33, 36, 38, 39, 40, 41, 42, 43, 44, 59, 61}   \* : / ? # [ ] @ ! $ & ' ( ) * + , ; =
\* RFC 6570 2.1: literals = any character except CTL, SP, " ' % < > \ ^ ` { | }  (here for bytes; non-ASCII bytes are allowed)
AllowedLiteral(b) == b > 127 \/ b = 33 \/ b \in 35..36 \/ b = 38 \/ b \in 40..59 \/ b = 61 \/ b \in 63..91 \/ b = 93 \/ b = 95 \/ b \in 97..122 \/ b = 126
Class(b) == IF b = 123 THEN "start"                       \* {
            ELSE IF b = 37 THEN "percent"                 \* %
            ELSE IF ~AllowedLiteral(b) THEN "invalid"
            ELSE IF Unreserved(b) \/ Reserved(b) THEN (IF HexDigit(b) THEN "hex" ELSE "copy")
            ELSE "encode"

HexChar(n) == IF n < 10 THEN 48 + n ELSE 55 + n            \* upper case
PercentEncoded(b) == <<37, HexChar(b \div 16), HexChar(b % 16)>>

\* ---- id encodings -----------------------------------------------------------------------------
\* big-endian bytes of a numeric id without leading zero bytes (at least one byte)
RECURSIVE BytesOf(_)
BytesOf(n) == IF n < 256 THEN <<n>> ELSE Append(BytesOf(n \div 256), n % 256)
RECURSIVE BitsOf(_)
BitsOf(bs) == IF bs = <<>> THEN <<>> ELSE
              LET b == Head(bs) IN <<(b \div 128) % 2, (b \div 64) % 2, (b \div 32) % 2, (b \div 16) % 2, (b \div 8) % 2, (b \div 4) % 2, (b \div 2) % 2, b % 2>> \o BitsOf(Tail(bs))
Pad(bits, k) == bits \o [i \in 1..((k - (Len(bits) % k)) % k) |-> 0]
RECURSIVE GroupVal(_, _, _)
GroupVal(bits, from, k) == IF k = 0 THEN 0 ELSE GroupVal(bits, from, k - 1) * 2 + bits[from + k - 1]
Groups(bits, k) == [g \in 1..(Len(bits) \div k) |-> GroupVal(bits, (g - 1) * k + 1, k)]
B32Char(v) == IF v < 10 THEN 48 + v ELSE 55 + v            \* 0-9 A-V
B64Char(v) == IF v < 26 THEN 65 + v ELSE IF v < 52 THEN 71 + v ELSE IF v < 62 THEN v - 4 ELSE IF v = 62 THEN 45 ELSE 95   \* A-Z a-z 0-9 - _
IdStringB(bs) == LET g == Groups(Pad(BitsOf(bs), 5), 5) IN [i \in DOMAIN g |-> B32Char(g[i])]
IdString(n) == IdStringB(BytesOf(n))
\* base64url with '=' padding to a multiple of four characters; '=' is not unreserved and is percent-encoded in the id64 value
Id64RawB(bs) == LET g == Groups(Pad(BitsOf(bs), 6), 6)  chars == [i \in DOMAIN g |-> B64Char(g[i])] IN
                chars \o [i \in 1..((4 - (Len(chars) % 4)) % 4) |-> 61]
Id64Raw(n) == Id64RawB(BytesOf(n))
RECURSIVE EncodeNonUnreserved(_)
EncodeNonUnreserved(s) == IF s = <<>> THEN <<>> ELSE
                          (IF Unreserved(Head(s)) THEN <<Head(s)>> ELSE PercentEncoded(Head(s))) \o EncodeNonUnreserved(Tail(s))
Id64String(n) == EncodeNonUnreserved(Id64Raw(n))
Id64StringB(bs) == EncodeNonUnreserved(Id64RawB(bs))
\* d1..d4: the k-th character of the id string counted from its end, '_' when there is none
IdDigit(idv, k) == IF Len(idv) >= k THEN idv[Len(idv) - k + 1] ELSE 95

\* ---- the machine ------------------------------------------------------------------------------
\* st = [mode, var, out, err]: mode "lit" | "pct1" | "pct2" | "expr"; var = the part of a variable name matched so far
Start == [mode |-> "lit", var |-> "", out |-> <<>>, err |-> FALSE]
Fail(st) == [st EXCEPT !.err = TRUE]
Step(st, b, idv, id64v) ==
  IF st.err THEN st
  ELSE IF st.mode = "lit" THEN
    LET c == Class(b) IN
    CASE c = "invalid" -> Fail(st)
      [] c = "percent" -> [st EXCEPT !.out = Append(@, b), !.mode = "pct1"]
      [] c = "start" -> [st EXCEPT !.mode = "expr", !.var = ""]
      [] c = "encode" -> [st EXCEPT !.out = @ \o PercentEncoded(b)]
      [] OTHER -> [st EXCEPT !.out = Append(@, b)]
  ELSE IF st.mode \in {"pct1", "pct2"} THEN
    IF Class(b) = "hex" THEN [st EXCEPT !.out = Append(@, b), !.mode = IF st.mode = "pct1" THEN "pct2" ELSE "lit"] ELSE Fail(st)
  ELSE \* inside an expression
    CASE st.var = "" /\ b = 105 -> [st EXCEPT !.var = "i"]
      [] st.var = "" /\ b = 100 -> [st EXCEPT !.var = "d"]
      [] st.var = "i" /\ b = 100 -> [st EXCEPT !.var = "id"]
      [] st.var = "id" /\ b = 54 -> [st EXCEPT !.var = "id6"]
      [] st.var = "id6" /\ b = 52 -> [st EXCEPT !.var = "id64"]
      [] st.var = "d" /\ b \in 49..52 -> [st EXCEPT !.var = IF b = 49 THEN "d1" ELSE IF b = 50 THEN "d2" ELSE IF b = 51 THEN "d3" ELSE "d4"]
      [] st.var = "id" /\ b = 125 -> [st EXCEPT !.out = @ \o idv, !.mode = "lit"]
      [] st.var = "id64" /\ b = 125 -> [st EXCEPT !.out = @ \o id64v, !.mode = "lit"]
      [] st.var \in {"d1", "d2", "d3", "d4"} /\ b = 125 ->
           [st EXCEPT !.out = Append(@, IdDigit(idv, IF st.var = "d1" THEN 1 ELSE IF st.var = "d2" THEN 2 ELSE IF st.var = "d3" THEN 3 ELSE 4)), !.mode = "lit"]
      [] OTHER -> Fail(st)

RECURSIVE Run(_, _, _, _)
Run(st, t, idv, id64v) == IF t = <<>> THEN st ELSE Run(Step(st, Head(t), idv, id64v), Tail(t), idv, id64v)
\* the expansion of template t (a sequence of bytes) for numeric id n: an error, or the output bytes
Expand(t, n) == LET st == Run(Start, t, IdString(n), Id64String(n)) IN
                IF st.err \/ st.mode # "lit" THEN [ok |-> FALSE, out |-> <<>>] ELSE [ok |-> TRUE, out |-> st.out]

\* ... for a string id (its bytes as they are: no leading zero is dropped)
ExpandB(t, bs) == LET st == Run(Start, t, IdStringB(bs), Id64StringB(bs)) IN
                  IF st.err \/ st.mode # "lit" THEN [ok |-> FALSE, out |-> <<>>] ELSE [ok |-> TRUE, out |-> st.out]

\* ---- statements TLC checks on the families ----------------------------------------------------
\* the output is a URI: unreserved / reserved characters and well-formed percent triplets only
RECURSIVE UriChars(_)
UriChars(s) == \/ s = <<>>
               \/ (Head(s) = 37 /\ Len(s) >= 3 /\ HexDigit(s[2]) /\ HexDigit(s[3]) /\ UriChars(SubSeq(s, 4, Len(s))))
               \/ (Head(s) # 37 /\ (Unreserved(Head(s)) \/ Reserved(Head(s))) /\ UriChars(Tail(s)))
OutputIsUri(t, n) == Expand(t, n).ok => UriChars(Expand(t, n).out)
\* templates without expressions expand the same way for every id
=============================================================================
