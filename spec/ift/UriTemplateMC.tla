--------------------------- MODULE UriTemplateMC ---------------------------
(* Families: every template of at most MaxLen tokens over Tokens (bytes, and the two bytes of one non-ASCII character) for  *)
(* one id, and a few fixed templates for many ids (the id encodings).  One state per member.                                *)
EXTENDS UriTemplate, Json, TLC

CONSTANTS MaxLen, Tokens, Ids
VARIABLES t, n, sid          \* n = -1: the id is the string sid

RECURSIVE Flat(_)
Flat(ts) == IF ts = <<>> THEN <<>> ELSE Head(ts) \o Flat(Tail(ts))
Templates == UNION {[1..k -> Tokens] : k \in 0..MaxLen}
\* g F / % { } i d 6 4 1 space ^ and the two bytes of U+00E9
MCTokens == {<<103>>, <<70>>, <<47>>, <<37>>, <<123>>, <<125>>, <<105>>, <<100>>, <<54>>, <<52>>, <<49>>, <<32>>, <<94>>, <<195, 169>>}
MCIds == {0, 1, 31, 32, 123, 478, 255, 256, 65535, 65536, 8388607, 1000000}
Fixed == {<<123, 105, 100, 125>>, <<123, 105, 100, 54, 52, 125>>, <<123, 100, 49, 125, 47, 123, 100, 50, 125, 47, 123, 100, 51, 125, 47, 123, 100, 52, 125>>,
          <<47, 47, 102, 46, 98, 47, 123, 100, 49, 125, 47, 123, 105, 100, 125, 63, 113, 61, 123, 105, 100, 54, 52, 125>>}
Sids == {<<>>, <<0>>, <<0, 1>>, <<255>>, <<1, 2, 3>>, <<104, 105>>, <<251, 255, 190>>}
Init == \/ \E ts \in Templates : t = Flat(ts) /\ n = 478 /\ sid = <<>>
        \/ \E f \in Fixed, i \in Ids : t = f /\ n = i /\ sid = <<>>
        \/ \E f \in Fixed, b \in Sids : t = f /\ n = -1 /\ sid = b
Next == UNCHANGED <<t, n, sid>>
Spec == Init /\ [][Next]_<<t, n, sid>>

Result == IF n = -1 THEN ExpandB(t, sid) ELSE Expand(t, n)
UriOK == Result.ok => UriChars(Result.out)
CaseDump == PrintT(<<"URICASE", ToJson([template |-> t, id |-> n, sid |-> sid, ok |-> Result.ok, out |-> Result.out])>>)
=============================================================================
