SPECIFICATION Spec
CONSTANTS
  MaxLen = 4
  Tokens <- MCTokens
  Ids <- MCIds
INVARIANTS UriOK CaseDump
CHECK_DEADLOCK FALSE
