SPECIFICATION Spec
CONSTANTS
  MaxLen = 5
  Tokens <- MCTokens
  Ids <- MCIds
INVARIANTS UriOK CaseDump
CHECK_DEADLOCK FALSE
