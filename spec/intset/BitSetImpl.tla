----------------------------- MODULE BitSetImpl -----------------------------
(***************************************************************************)
(* Implementation-shaped model of read-fonts' paged bit set                *)
(*   read-fonts/src/collections/int_set/bitset.rs  (struct BitSet)         *)
(* and of the mode dispatch in int_set/mod.rs (enum Membership).           *)
(*                                                                         *)
(* A BitSet value is a record                                              *)
(*    [pages : Seq(SUBSET Atoms)      physical page vector                 *)
(*     pmap  : Seq([major, index])    page_map, sorted by major            *)
(*     length: Nat]                   cached number of stored values       *)
(* Operators are written step for step like the Rust methods; in           *)
(* particular pages are never dropped by remove/remove_range (empty pages  *)
(* stay behind) and `process` compacts / renumbers as the code does.       *)
(***************************************************************************)
EXTENDS Integers, Sequences, FiniteSets, SequencesExt, TLC

CONSTANTS
  N, PageOf,   \* PageOf : [Touchable atoms -> major]
  Size,        \* [Atoms -> Nat] number of domain values in an atom
  Continuous   \* Domain::is_continuous()

LOCAL BAtoms == 0..(N-1)

EmptyBits == [pages |-> <<>>, pmap |-> <<>>, length |-> 0]

Stored(b)  == UNION {b.pages[i] : i \in DOMAIN b.pages}
Majors(b)  == {b.pmap[i].major : i \in DOMAIN b.pmap}
MapIdx(b, m)  == CHOOSE i \in DOMAIN b.pmap : b.pmap[i].major = m
Phys(b, m)    == b.pmap[MapIdx(b, m)].index
PageAt(b, m)  == b.pages[Phys(b, m)]                  \* page_for_major
Weight(S)  == LET RECURSIVE W(_)
                  W(T) == IF T = {} THEN 0 ELSE LET x == CHOOSE y \in T : TRUE IN Size[x] + W(T \ {x})
              IN W(S)
RecomputeLength(b) == [b EXCEPT !.length = Weight(Stored(b))]

\* binary_search_by(..).unwrap_err(): first position whose major is >= m
MapPos(pm, m) == CHOOSE i \in 1..(Len(pm) + 1) :
                    /\ \A j \in 1..(i - 1) : pm[j].major < m
                    /\ \A j \in i..Len(pm) : pm[j].major >= m

\* ensure_page_index_for_major
Ensure(b, m) ==
  IF m \in Majors(b) THEN b
  ELSE [b EXCEPT !.pages = Append(@, {}),
                 !.pmap  = InsertAt(@, MapPos(b.pmap, m), [major |-> m, index |-> Len(b.pages) + 1])]

\* insert (also one step of extend / extend_unsorted / BitSetBuilder::insert)
BInsert(b, a) ==
  LET b1 == Ensure(b, PageOf[a])
      ph == Phys(b1, PageOf[a])
  IN [b1 EXCEPT !.pages[ph] = @ \cup {a},
                !.length    = @ + (IF a \in b1.pages[ph] THEN 0 ELSE Size[a])]

\* remove (also one step of remove_all): never creates a page
BRemove(b, a) ==
  IF PageOf[a] \notin Majors(b) THEN b
  ELSE LET ph == Phys(b, PageOf[a])
       IN [b EXCEPT !.pages[ph] = @ \ {a},
                    !.length    = @ - (IF a \in b.pages[ph] THEN Size[a] ELSE 0)]

RECURSIVE BExtend(_, _)
BExtend(b, q) == IF q = <<>> THEN b ELSE BExtend(BInsert(b, Head(q)), Tail(q))
RECURSIVE BRemoveAll(_, _)
BRemoveAll(b, q) == IF q = <<>> THEN b ELSE BRemoveAll(BRemove(b, Head(q)), Tail(q))

InRange(x, y) == {a \in BAtoms : x <= a /\ a <= y}
AscSeq(S) == SetToSortSeq(S, <)

\* insert_range: ensure a page for every major in major_start..=major_end, ascending
RECURSIVE InsRangeFrom(_, _, _, _, _)
InsRangeFrom(b, m, mEnd, x, y) ==
  IF m > mEnd THEN b
  ELSE LET b1  == Ensure(b, m)
           ph  == Phys(b1, m)
           add == {a \in InRange(x, y) : PageOf[a] = m}
       IN InsRangeFrom([b1 EXCEPT !.pages[ph] = @ \cup add,
                                  !.length    = @ + Weight(add \ b1.pages[ph])],
                       m + 1, mEnd, x, y)
BInsertRange(b, x, y) == IF x > y THEN b ELSE InsRangeFrom(b, PageOf[x], PageOf[y], x, y)

\* remove_range: clears the affected part of existing pages, keeps the pages, recomputes length
BRemoveRange(b, x, y) ==
  IF x > y THEN b
  ELSE RecomputeLength(
         [b EXCEPT !.pages = [i \in DOMAIN b.pages |->
              LET mi == CHOOSE j \in DOMAIN b.pmap : b.pmap[j].index = i
                  m  == b.pmap[mi].major
              IN IF m >= PageOf[x] /\ m <= PageOf[y] THEN b.pages[i] \ InRange(x, y) ELSE b.pages[i]]])

-----------------------------------------------------------------------------
(* BitSet::process(op, other): the in-place merge of two page lists.        *)
(* kind \in {"union","intersect","subtract","revsub"}                      *)

PassLeft(kind)  == kind \in {"union", "subtract"}
PassRight(kind) == kind \in {"union", "revsub"}
PageOp(kind, pa, pb) ==
  CASE kind = "union"     -> pa \cup pb
    [] kind = "intersect" -> pa \cap pb
    [] kind = "subtract"  -> pa \ pb
    [] kind = "revsub"    -> pb \ pa

Process(b, o, kind) ==
  LET pl == PassLeft(kind)
      pr == PassRight(kind)
      \* Step 1: page_map entries of self that survive
      keptIdx  == {i \in DOMAIN b.pmap : pl \/ b.pmap[i].major \in Majors(o)}
      \* Step 2: compact() renumbers surviving physical pages, keeping their physical order
      keptPhys == {b.pmap[i].index : i \in keptIdx}
      NewPhys(p) == IF pl THEN p ELSE Cardinality({q \in keptPhys : q <= p})
      nextPage == IF pl THEN Len(b.pages) ELSE Cardinality(keptIdx)      \* pages in use so far
      \* Step 3/4: merged, sorted page_map; right-only pages get fresh physical
      \* indices in the order they are met walking *backwards*
      rightOnly == IF pr THEN Majors(o) \ Majors(b) ELSE {}
      allMajors == {b.pmap[i].major : i \in keptIdx} \cup rightOnly
      order == AscSeq(allMajors)
      RightPhys(m) == nextPage + Cardinality({r \in rightOnly : r >= m})
      newMap == [k \in DOMAIN order |->
                   LET m == order[k] IN
                   IF m \in rightOnly THEN [major |-> m, index |-> RightPhys(m)]
                   ELSE [major |-> m, index |-> NewPhys(Phys(b, m))]]
      count == Len(order)
      Content(p) ==   \* page contents at new physical index p
         LET k == CHOOSE j \in DOMAIN newMap : newMap[j].index = p
             m == newMap[k].major
         IN IF m \in rightOnly THEN PageAt(o, m)
            ELSE IF m \in Majors(o) THEN PageOp(kind, PageAt(b, m), PageAt(o, m))
            ELSE PageAt(b, m)
  IN RecomputeLength([pages |-> [p \in 1..count |-> Content(p)], pmap |-> newMap, length |-> 0])

-----------------------------------------------------------------------------
(* IntSet<T>: Membership::{Inclusive, Exclusive}(BitSet) and its dispatch.  *)

Members(excl, b) == IF excl THEN BAtoms \ Stored(b) ELSE Stored(b)

IInsert(excl, b, a) == [excl |-> excl, bits |-> IF excl THEN BRemove(b, a) ELSE BInsert(b, a)]
IRemove(excl, b, a) == [excl |-> excl, bits |-> IF excl THEN BInsert(b, a) ELSE BRemove(b, a)]
IInsertRange(excl, b, x, y) ==
  [excl |-> excl, bits |->
     IF Continuous THEN (IF excl THEN BRemoveRange(b, x, y) ELSE BInsertRange(b, x, y))
     ELSE (IF excl THEN BRemoveAll(b, AscSeq(InRange(x, y))) ELSE BExtend(b, AscSeq(InRange(x, y))))]
IRemoveRange(excl, b, x, y) ==
  [excl |-> excl, bits |->
     IF Continuous THEN (IF excl THEN BInsertRange(b, x, y) ELSE BRemoveRange(b, x, y))
     ELSE (IF excl THEN BExtend(b, AscSeq(InRange(x, y))) ELSE BRemoveAll(b, AscSeq(InRange(x, y))))]
IExtend(excl, b, q)    == [excl |-> excl, bits |-> IF excl THEN BRemoveAll(b, q) ELSE BExtend(b, q)]
IRemoveAll(excl, b, q) == [excl |-> excl, bits |-> IF excl THEN BExtend(b, q) ELSE BRemoveAll(b, q)]

\* the 2x2 mode tables of IntSet::{union, intersect, subtract}
IUnion(excl, b, oe, ob) ==
  CASE ~excl /\ ~oe -> [excl |-> FALSE, bits |-> Process(b, ob, "union")]
    [] ~excl /\  oe -> [excl |-> TRUE,  bits |-> Process(b, ob, "revsub")]     \* + invert
    []  excl /\ ~oe -> [excl |-> TRUE,  bits |-> Process(b, ob, "subtract")]
    []  excl /\  oe -> [excl |-> TRUE,  bits |-> Process(b, ob, "intersect")]
IIntersect(excl, b, oe, ob) ==
  CASE ~excl /\ ~oe -> [excl |-> FALSE, bits |-> Process(b, ob, "intersect")]
    [] ~excl /\  oe -> [excl |-> FALSE, bits |-> Process(b, ob, "subtract")]
    []  excl /\ ~oe -> [excl |-> FALSE, bits |-> Process(b, ob, "revsub")]     \* + invert
    []  excl /\  oe -> [excl |-> TRUE,  bits |-> Process(b, ob, "union")]
ISubtract(excl, b, oe, ob) ==
  CASE ~excl /\ ~oe -> [excl |-> FALSE, bits |-> Process(b, ob, "subtract")]
    [] ~excl /\  oe -> [excl |-> FALSE, bits |-> Process(b, ob, "intersect")]
    []  excl /\ ~oe -> [excl |-> TRUE,  bits |-> Process(b, ob, "union")]
    []  excl /\  oe -> [excl |-> FALSE, bits |-> Process(b, ob, "revsub")]     \* + invert
IInvert(excl, b) == [excl |-> ~excl, bits |-> b]                   \* storage is reused
IClear(excl, b)  == [excl |-> FALSE, bits |-> EmptyBits]

\* an operand set as the harness builds it: stored atoms ascending, then pages left empty
OperandBits(o) ==
  LET b1 == BExtend(EmptyBits, AscSeq(o.stored))
      RECURSIVE AddEmpty(_, _)
      AddEmpty(b, ms) == IF ms = <<>> THEN b ELSE AddEmpty(Ensure(b, Head(ms)), Tail(ms))
  IN AddEmpty(b1, AscSeq(o.empty))

-----------------------------------------------------------------------------
(* Representation invariants the code relies on.                            *)
ReprOK(b) ==
  /\ \A i, j \in DOMAIN b.pmap : i < j => b.pmap[i].major < b.pmap[j].major
  /\ Len(b.pmap) = Len(b.pages)
  /\ {b.pmap[i].index : i \in DOMAIN b.pmap} = DOMAIN b.pages
  /\ \A i \in DOMAIN b.pmap : \A a \in b.pages[b.pmap[i].index] : PageOf[a] = b.pmap[i].major
  /\ b.length = Weight(Stored(b))
=============================================================================
