----------------------------- MODULE IntSetAbs -----------------------------
(***************************************************************************)
(* The mathematical set behind read_fonts::collections::IntSet<T>.         *)
(*                                                                         *)
(* The element domain of T is partitioned into N ordered *atoms*           *)
(* (intervals of consecutive domain values, see DESIGN.md section 3); every*)
(* driver operation uses atom end points, so every reachable set is a      *)
(* union of atoms and the abstract state is `s \subseteq Atoms`.           *)
(*                                                                         *)
(* One action per public mutator of IntSet, observers as definitions.      *)
(***************************************************************************)
EXTENDS Integers, Sequences, FiniteSets, TLC

CONSTANTS
  N,          \* atoms 0..N-1; ascending atom = ascending domain value
  Adjacent,   \* {a : atom a+1 starts at the domain value right after atom a}
  Points,     \* atoms holding exactly one value (legal args of insert/remove)
  Seg,        \* [Atoms -> Nat]: range operations stay inside one segment
  Touchable,  \* atoms that mutators other than invert/set-algebra may name
  Operands,   \* <<[excl |-> BOOLEAN, stored |-> SUBSET Atoms, empty |-> SUBSET majors]>>
  Lists       \* <<Seq(Atoms)>> arguments of extend / extend_unsorted / remove_all

Atoms == 0..(N-1)

VARIABLE s

OpMembers(o) == IF o.excl THEN Atoms \ o.stored ELSE o.stored
Range(a, b)  == {x \in Atoms : a <= x /\ x <= b}          \* empty when a > b
SeqSet(q)    == {q[i] : i \in DOMAIN q}

\* every a <= b inside one segment, plus the empty (reversed) ranges b = a - 1
RangeArgs == {<<a, b>> \in Touchable \X Touchable : Seg[a] = Seg[b] /\ b >= a - 1}

AInit == s = {}

AInsert(a)         == s' = s \cup {a}
ARemove(a)         == s' = s \ {a}
AInsertRange(a, b) == s' = s \cup Range(a, b)
ARemoveRange(a, b) == s' = s \ Range(a, b)
AExtend(q)         == s' = s \cup SeqSet(q)
ARemoveAll(q)      == s' = s \ SeqSet(q)
AUnion(o)          == s' = s \cup OpMembers(o)
AIntersect(o)      == s' = s \cap OpMembers(o)
ASubtract(o)       == s' = s \ OpMembers(o)
AInvert            == s' = Atoms \ s
AClear             == s' = {}

-----------------------------------------------------------------------------
(* Observers: what the public accessors must report for a set `m`.          *)

Min(S) == CHOOSE x \in S : \A y \in S : x <= y
Max(S) == CHOOSE x \in S : \A y \in S : x >= y

FirstOf(m) == IF m = {} THEN -1 ELSE Min(m)
LastOf(m)  == IF m = {} THEN -1 ELSE Max(m)

\* maximal runs of domain-adjacent member atoms, ascending
RunStart(m, a) == a \in m /\ ~((a - 1) \in m /\ (a - 1) \in Adjacent)
RunEnd(m, a)   == a \in m /\ ~((a + 1) \in m /\ a \in Adjacent)
RunEndFrom(m, a) == Min({b \in m : b >= a /\ RunEnd(m, b)})
RangesOf(m) ==
  LET starts == {a \in m : RunStart(m, a)}
      F[i \in 0..N] ==   \* runs whose start is < i, in order
        IF i = 0 THEN <<>>
        ELSE IF (i - 1) \in starts THEN Append(F[i - 1], <<i - 1, RunEndFrom(m, i - 1)>>)
        ELSE F[i - 1]
  IN F[N]

\* first member at or after atom a (-1 if none): decides intersects_range and iter_after
NextAtOrAfter(m, a) == LET c == {x \in m : x >= a} IN IF c = {} THEN -1 ELSE Min(c)
NextTable(m) == [i \in 1..N |-> NextAtOrAfter(m, i - 1)]   \* 1-based sequence (JSON array)

\* lexicographic order of the ascending member sequences (Ord for IntSet)
CmpSets(A, B) ==
  IF A = B THEN 0
  ELSE LET x == Min((A \ B) \cup (B \ A)) IN
       IF x \in A THEN (IF \E y \in B : y > x THEN -1 ELSE 1)
                  ELSE (IF \E y \in A : y > x THEN 1 ELSE -1)

Observe(m) ==
  [ members  |-> m,
    first    |-> FirstOf(m),
    last     |-> LastOf(m),
    ranges   |-> RangesOf(m),
    xranges  |-> RangesOf(Atoms \ m),
    next     |-> NextTable(m),
    eq       |-> [i \in DOMAIN Operands |-> m = OpMembers(Operands[i])],
    cmp      |-> [i \in DOMAIN Operands |-> CmpSets(m, OpMembers(Operands[i]))],
    isect    |-> [i \in DOMAIN Operands |-> m \cap OpMembers(Operands[i]) # {}] ]
=============================================================================
