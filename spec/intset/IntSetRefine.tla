---------------------------- MODULE IntSetRefine ----------------------------
(***************************************************************************)
(* Product of the abstract set (IntSetAbs) and the paged implementation    *)
(* model (BitSetImpl), stepped action by action.  TLC checks               *)
(*   Refines : Members(impl) = s           (the page algorithm is a set)   *)
(*   Repr    : the representation invariants                               *)
(* for every history, and - through StateDump / EdgeDump - emits the whole *)
(* labelled state graph so that the harness can drive the real IntSet<T>   *)
(* through every (representation state, operation) edge.                    *)
(***************************************************************************)
EXTENDS IntSetAbs, Json

CONSTANTS PageOf, Size, Continuous
VARIABLES excl, bits, last

I == INSTANCE BitSetImpl

vars == <<s, excl, bits, last>>
View == <<s, excl, bits>>          \* `last` only labels the edge

OpBits(i) == I!OperandBits(Operands[i])

Init == AInit /\ excl = FALSE /\ bits = I!EmptyBits /\ last = [op |-> "new"]

Set(r) == excl' = r.excl /\ bits' = r.bits

Insert(a) == AInsert(a) /\ Set(I!IInsert(excl, bits, a))
             /\ last' = [op |-> "insert", a |-> a, ret |-> a \notin s]
Remove(a) == ARemove(a) /\ Set(I!IRemove(excl, bits, a))
             /\ last' = [op |-> "remove", a |-> a, ret |-> a \in s]
InsertRange(a, b) == AInsertRange(a, b) /\ Set(I!IInsertRange(excl, bits, a, b))
             /\ last' = [op |-> "insert_range", a |-> a, b |-> b]
RemoveRange(a, b) == ARemoveRange(a, b) /\ Set(I!IRemoveRange(excl, bits, a, b))
             /\ last' = [op |-> "remove_range", a |-> a, b |-> b]
Extend(i) == AExtend(Lists[i]) /\ Set(I!IExtend(excl, bits, Lists[i]))
             /\ last' = [op |-> "extend", l |-> i]
ExtendUnsorted(i) == AExtend(Lists[i]) /\ Set(I!IExtend(excl, bits, Lists[i]))
             /\ last' = [op |-> "extend_unsorted", l |-> i]
RemoveAll(i) == ARemoveAll(Lists[i]) /\ Set(I!IRemoveAll(excl, bits, Lists[i]))
             /\ last' = [op |-> "remove_all", l |-> i]
Union(i) == AUnion(Operands[i]) /\ Set(I!IUnion(excl, bits, Operands[i].excl, OpBits(i)))
             /\ last' = [op |-> "union", o |-> i]
Intersect(i) == AIntersect(Operands[i]) /\ Set(I!IIntersect(excl, bits, Operands[i].excl, OpBits(i)))
             /\ last' = [op |-> "intersect", o |-> i]
Subtract(i) == ASubtract(Operands[i]) /\ Set(I!ISubtract(excl, bits, Operands[i].excl, OpBits(i)))
             /\ last' = [op |-> "subtract", o |-> i]
Invert == AInvert /\ Set(I!IInvert(excl, bits)) /\ last' = [op |-> "invert"]
Clear  == AClear  /\ Set(I!IClear(excl, bits))  /\ last' = [op |-> "clear"]

Next ==
  \/ \E a \in Points \cap Touchable : Insert(a) \/ Remove(a)
  \/ \E r \in RangeArgs : InsertRange(r[1], r[2]) \/ RemoveRange(r[1], r[2])
  \/ \E i \in DOMAIN Lists : Extend(i) \/ ExtendUnsorted(i) \/ RemoveAll(i)
  \/ \E i \in DOMAIN Operands : Union(i) \/ Intersect(i) \/ Subtract(i)
  \/ Invert \/ Clear

Spec == Init /\ [][Next]_vars

-----------------------------------------------------------------------------
Refines == I!Members(excl, bits) = s
Repr    == I!ReprOK(bits)
TypeOK  == s \subseteq Atoms /\ excl \in BOOLEAN

-----------------------------------------------------------------------------
(* State-graph export (evaluated once per distinct state / explored edge).  *)
Key(e, b) == ToString(<<e, b.pages, b.pmap>>)

StateDump ==
  PrintT(<<"STATE", ToJson([key |-> Key(excl, bits), excl |-> excl,
                            majors |-> [i \in DOMAIN bits.pmap |-> bits.pmap[i].major],
                            phys   |-> [i \in DOMAIN bits.pmap |-> bits.pmap[i].index],
                            length |-> bits.length,
                            obs |-> Observe(s)])>>)

EdgeDump ==
  PrintT(<<"EDGE", ToJson([pre |-> Key(excl, bits), op |-> last', post |-> Key(excl', bits')])>>)
=============================================================================
