---------------------------- MODULE IntSetTrace ----------------------------
(***************************************************************************)
(* Trace validation for IntSet<T>: every recorded call of the real set     *)
(* must be a step of IntSetAbs, and the observations logged after the call *)
(* (members per atom, first, last, ranges, return value) must be the ones  *)
(* the abstract set prescribes.                                            *)
(***************************************************************************)
EXTENDS IntSetAbs, TraceIO

SeqAsSet(q) == {q[i] : i \in DOMAIN q}

Obs(e) == /\ e.uniform            \* every atom is wholly in or wholly out
          /\ e.len_ok             \* len() = sum of member atom sizes (computed by the recorder)
          /\ SeqAsSet(e.members) = s'
          /\ e.first = FirstOf(s')
          /\ e.last = LastOf(s')
          /\ e.ranges = RangesOf(s')

TInit == AInit /\ l = 1

TReset       == IsEvent("reset") /\ s' = {}
TInsert      == IsEvent("insert") /\ AInsert(Ev.a) /\ Ev.ret = (Ev.a \notin s) /\ Obs(Ev)
TRemove      == IsEvent("remove") /\ ARemove(Ev.a) /\ Ev.ret = (Ev.a \in s) /\ Obs(Ev)
TInsertRange == IsEvent("insert_range") /\ AInsertRange(Ev.a, Ev.b) /\ Obs(Ev)
TRemoveRange == IsEvent("remove_range") /\ ARemoveRange(Ev.a, Ev.b) /\ Obs(Ev)
TExtend      == IsEvent("extend") /\ AExtend(Lists[Ev.l]) /\ Obs(Ev)
TExtendU     == IsEvent("extend_unsorted") /\ AExtend(Lists[Ev.l]) /\ Obs(Ev)
TRemoveAll   == IsEvent("remove_all") /\ ARemoveAll(Lists[Ev.l]) /\ Obs(Ev)
TUnion       == IsEvent("union") /\ AUnion(Operands[Ev.o]) /\ Obs(Ev)
TIntersect   == IsEvent("intersect") /\ AIntersect(Operands[Ev.o]) /\ Obs(Ev)
TSubtract    == IsEvent("subtract") /\ ASubtract(Operands[Ev.o]) /\ Obs(Ev)
TInvert      == IsEvent("invert") /\ AInvert /\ Obs(Ev)
TClear       == IsEvent("clear") /\ AClear /\ Obs(Ev)

TNext == \/ TReset \/ TInsert \/ TRemove \/ TInsertRange \/ TRemoveRange
         \/ TExtend \/ TExtendU \/ TRemoveAll \/ TUnion \/ TIntersect \/ TSubtract
         \/ TInvert \/ TClear

TraceSpec == TInit /\ [][TNext]_<<s, l>>
TypeOK == s \subseteq Atoms
=============================================================================
