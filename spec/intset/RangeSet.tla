------------------------------ MODULE RangeSet ------------------------------
(***************************************************************************)
(* read_fonts::collections::RangeSet<T>: a BTreeMap start -> end of        *)
(* disjoint, non-adjacent inclusive ranges.                                *)
(*                                                                         *)
(* Abstract state: the point set `pts` over K ordered positions (atoms of  *)
(* the value domain, all consecutive).  Implementation-shaped state: the   *)
(* map `rs` as a set of <<start, end>> pairs, with `Insert` transcribed    *)
(* from range_set.rs (prev_range / next_range merging loop).               *)
(* Checked: rs stays sorted/disjoint/non-adjacent, Points(rs) = pts, and   *)
(* intersection yields exactly the maximal runs of the intersection.       *)
(***************************************************************************)
EXTENDS Integers, Sequences, FiniteSets, SequencesExt, TLC, Json

CONSTANTS K, Others     \* positions 0..K-1; catalogue of operand range sets (sets of pairs)

Pos == 0..(K - 1)
VARIABLES pts, rs, last

Points(R) == UNION {r[1]..r[2] : r \in R}

Overlap(as, ae, bs, be) == as <= be /\ bs <= ae
Adjacent(x, y) == x + 1 = y \/ y + 1 = x
OverlapOrAdjacent(as, ae, bs, be) == Overlap(as, ae, bs, be) \/ Adjacent(ae, bs) \/ Adjacent(be, as)
Subset(as, ae, bs, be) == as >= bs /\ ae <= be

PrevRange(R, start) == LET c == {r \in R : r[1] < start} IN
                       IF c = {} THEN <<>> ELSE CHOOSE r \in c : \A q \in c : q[1] <= r[1]
NextRange(R, start) == LET c == {r \in R : r[1] >= start} IN
                       IF c = {} THEN <<>> ELSE CHOOSE r \in c : \A q \in c : q[1] >= r[1]

RECURSIVE MergeLoop(_, _, _)
MergeLoop(R, start, end) ==
  LET nx == NextRange(R, start) IN
  IF nx = <<>> THEN R \cup {<<start, end>>}
  ELSE IF Subset(start, end, nx[1], nx[2]) THEN R
  ELSE IF OverlapOrAdjacent(start, end, nx[1], nx[2])
       THEN MergeLoop(R \ {nx}, IF nx[1] < start THEN nx[1] ELSE start, IF nx[2] > end THEN nx[2] ELSE end)
       ELSE R \cup {<<start, end>>}

InsertImpl(R, a, b) ==
  IF b < a THEN R
  ELSE LET pv == PrevRange(R, a) IN
       IF pv # <<>> /\ Subset(a, b, pv[1], pv[2]) THEN R
       ELSE IF pv # <<>> /\ OverlapOrAdjacent(a, b, pv[1], pv[2])
            THEN MergeLoop(R \ {pv}, IF pv[1] < a THEN pv[1] ELSE a, IF pv[2] > b THEN pv[2] ELSE b)
            ELSE MergeLoop(R, a, b)

\* maximal runs of a point set, ascending
Runs(P) == LET starts == {x \in P : (x - 1) \notin P}
               EndOf(x) == CHOOSE y \in P : y >= x /\ (y + 1) \notin P /\ \A z \in x..y : z \in P
           IN SetToSortSeq({<<x, EndOf(x)>> : x \in starts}, LAMBDA p, q : p[1] < q[1])

Init == pts = {} /\ rs = {} /\ last = [op |-> "new"]
Insert(a, b) == /\ pts' = pts \cup (a..b)
                /\ rs' = InsertImpl(rs, a, b)
                /\ last' = [op |-> "insert", a |-> a, b |-> b]
Next == \E a, b \in Pos : Insert(a, b)
Spec == Init /\ [][Next]_<<pts, rs, last>>
View == <<pts, rs>>

Refines == Points(rs) = pts
Canonical == /\ \A r \in rs : r[1] <= r[2]
             /\ \A r, q \in rs : r # q => ~OverlapOrAdjacent(r[1], r[2], q[1], q[2])
             /\ \A r, q \in rs : r # q => r[1] # q[1]
IterIsRuns == SetToSortSeq(rs, LAMBDA p, q : p[1] < q[1]) = Runs(pts)

StateDump == PrintT(<<"STATE", ToJson([key |-> ToString(rs), iter |-> Runs(pts), empty |-> pts = {},
                 isect |-> [i \in DOMAIN Others |-> Runs(pts \cap Points(Others[i]))]])>>)
EdgeDump == PrintT(<<"EDGE", ToJson([pre |-> ToString(rs), op |-> last', post |-> ToString(rs')])>>)
=============================================================================
