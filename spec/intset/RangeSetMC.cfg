SPECIFICATION Spec
CONSTANTS
  K = 7
  Others <- MCOthers
VIEW View
INVARIANTS Refines Canonical IterIsRuns StateDump
ACTION_CONSTRAINT EdgeDump
CHECK_DEADLOCK FALSE
