---------------------------- MODULE SparseBitSet ----------------------------
(***************************************************************************)
(* The IFT "sparse bit set" decoding algorithm, written from the           *)
(* specification text (https://w3c.github.io/IFT/Overview.html#sparse-bit- *)
(* set-decoding) as a step machine: one step per tree node read from the   *)
(* stream, breadth first.                                                  *)
(*                                                                         *)
(*   byte 1:  bits 0-1 branch factor code (2,4,8,32), bits 2-6 height H    *)
(*   then one node of BF bits per queue entry, least significant bit first *)
(*   node = 0        : the whole sub-tree below it is filled               *)
(*   bit i at depth<H: child covering start + i * BF^(H-depth)             *)
(*   bit i at depth=H: value start + i                                     *)
(* Values get `bias` added and are dropped when above `max`.               *)
(* The decoder fails when the stream ends before the queue is empty, when  *)
(* there is no header byte, or (implementation limit, allowed by the       *)
(* property) when H exceeds the supported height for the branch factor.    *)
(***************************************************************************)
EXTENDS Integers, Sequences, FiniteSets, TLC

BFOf(code) == CASE code = 0 -> 2 [] code = 1 -> 4 [] code = 2 -> 8 [] code = 3 -> 32
MaxHeight(bf) == CASE bf = 2 -> 31 [] bf = 4 -> 16 [] bf = 8 -> 11 [] bf = 32 -> 7

\* Arithmetic on positions saturates at Cap = 2^30: every maximum used in the models and traces is below Cap, so a
\* saturated start or end is beyond the maximum exactly when the true value is (tall trees span up to 2^35).
Cap == 1073741824
MulCap(i, p) == IF i = 0 THEN 0 ELSE IF p > Cap \div i THEN Cap ELSE i * p
AddCap(a, b) == IF a >= Cap - b THEN Cap ELSE a + b
RECURSIVE Pow(_, _)
Pow(b, e) == IF e = 0 THEN 1 ELSE MulCap(b, Pow(b, e - 1))

HeaderBF(bytes) == BFOf(bytes[1] % 4)
HeaderH(bytes)  == (bytes[1] \div 4) % 32

\* bit k (0-based, after the header byte) of the stream, LSB first inside a byte
BitAt(bytes, k) == (bytes[2 + (k \div 8)] \div Pow(2, k % 8)) % 2 = 1
\* a node of bf bits at bit position pos is readable iff all its bytes exist
NodeReadable(bytes, pos, bf) == 1 + ((pos + bf + 7) \div 8) <= Len(bytes)
NodeBits(bytes, pos, bf) == {i \in 0..(bf - 1) : BitAt(bytes, pos + i)}
BytesConsumed(pos) == 1 + ((pos + 7) \div 8)

(* decoder state: queue of [start, depth]; pos in bits; out = set of <<lo, hi>> raw ranges *)
Start(bytes) ==
  IF Len(bytes) = 0 THEN [status |-> "error", why |-> "no header"]
  ELSE IF HeaderH(bytes) > MaxHeight(HeaderBF(bytes)) THEN [status |-> "error", why |-> "height"]
  ELSE IF HeaderH(bytes) = 0 THEN [status |-> "done", queue |-> <<>>, pos |-> 0, out |-> {}]
  ELSE [status |-> "run", queue |-> <<[start |-> 0, depth |-> 1]>>, pos |-> 0, out |-> {}]

SortedSeq(S) == LET RECURSIVE F(_)
                    F(T) == IF T = {} THEN <<>> ELSE LET m == CHOOSE x \in T : \A y \in T : x <= y
                                                     IN <<m>> \o F(T \ {m})
                IN F(S)

Step(bytes, st) ==
  LET bf == HeaderBF(bytes)
      h  == HeaderH(bytes)
      n  == Head(st.queue)
  IN IF ~NodeReadable(bytes, st.pos, bf) THEN [status |-> "error", why |-> "short"]
     ELSE LET bits == NodeBits(bytes, st.pos, bf)
              rest == Tail(st.queue)
              pos2 == st.pos + bf
              fin(q) == IF q = <<>> THEN "done" ELSE "run"
          IN IF bits = {}
             THEN [status |-> fin(rest), queue |-> rest, pos |-> pos2,
                   out |-> st.out \cup {<<n.start, AddCap(n.start, Pow(bf, h - n.depth + 1)) - 1>>}]
             ELSE IF n.depth = h
             THEN [status |-> fin(rest), queue |-> rest, pos |-> pos2,
                   out |-> st.out \cup {<<AddCap(n.start, i), AddCap(n.start, i)>> : i \in bits}]
             ELSE LET kids == [k \in 1..Cardinality(bits) |->
                                 [start |-> AddCap(n.start, MulCap(SortedSeq(bits)[k], Pow(bf, h - n.depth))), depth |-> n.depth + 1]]
                  IN [status |-> "run", queue |-> rest \o kids, pos |-> pos2, out |-> st.out]

RECURSIVE RunFrom(_, _)
RunFrom(bytes, st) == IF st.status = "run" THEN RunFrom(bytes, Step(bytes, st)) ELSE st

\* apply bias and maximum to the raw ranges
Biased(out, bias, max) ==
  {<<r[1] + bias, IF AddCap(r[2], bias) > max THEN max ELSE r[2] + bias>> : r \in {q \in out : AddCap(q[1], bias) <= max}}

\* the complete result: error, or value ranges + number of unread bytes
Decode(bytes, bias, max) ==
  LET st == RunFrom(bytes, Start(bytes)) IN
  IF st.status = "error" THEN [err |-> TRUE, ranges |-> {}, rem |-> 0]
  ELSE [err |-> FALSE, ranges |-> Biased(st.out, bias, max), rem |-> Len(bytes) - BytesConsumed(st.pos)]

Values(rs) == UNION {r[1]..r[2] : r \in rs}

-----------------------------------------------------------------------------
(* A plain reference encoder (no filled-node shortcut): used only to check  *)
(* the decoder specification against itself, Decode(Encode(S)) = S.         *)
RECURSIVE LevelNodes(_, _, _, _)
\* nodes (as sets of bits) of depth d, in BFS order, for value set S
LevelNodes(S, bf, h, d) ==
  LET span == Pow(bf, h - d + 1)          \* values covered by a node at depth d
      child == Pow(bf, h - d)
      starts == SortedSeq({(v \div span) * span : v \in S})
  IN [k \in DOMAIN starts |-> {i \in 0..(bf - 1) : \E v \in S : v \div child = (starts[k] \div child) + i}]

BitsToBytes(bitseq) ==   \* sequence of booleans -> bytes, LSB first, zero padded
  [j \in 1..((Len(bitseq) + 7) \div 8) |->
     LET RECURSIVE Sum(_)
         Sum(i) == IF i > 7 THEN 0
                   ELSE (IF (j - 1) * 8 + i + 1 <= Len(bitseq) /\ bitseq[(j - 1) * 8 + i + 1] THEN Pow(2, i) ELSE 0) + Sum(i + 1)
     IN Sum(0)]

RECURSIVE FlatBits(_, _)
FlatBits(nodes, bf) == IF nodes = <<>> THEN <<>>
                       ELSE [i \in 1..bf |-> (i - 1) \in Head(nodes)] \o FlatBits(Tail(nodes), bf)

RECURSIVE AllLevels(_, _, _, _)
AllLevels(S, bf, h, d) == IF d > h THEN <<>> ELSE LevelNodes(S, bf, h, d) \o AllLevels(S, bf, h, d + 1)

Encode(S, code, h) ==
  LET bf == BFOf(code) IN
  IF S = {} THEN <<code>>          \* height 0
  ELSE <<code + 4 * h>> \o BitsToBytes(FlatBits(AllLevels(S, bf, h, 1), bf))
=============================================================================
