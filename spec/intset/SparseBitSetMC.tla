--------------------------- MODULE SparseBitSetMC ---------------------------
(***************************************************************************)
(* Model-checking wrapper: TLC picks an input (header x body x bias x max) *)
(* in Init, the decoder runs one node per step, and each finished run is   *)
(* exported as a CASE line for replay on IntSet::from_sparse_bit_set_bounded*)
(***************************************************************************)
EXTENDS SparseBitSet, Json, SequencesExt

CONSTANTS Headers, Alphabet, MaxBody, Biases, Maxes, RoundTripMax

VARIABLES input, st

Bodies == UNION {[1..k -> Alphabet] : k \in 0..MaxBody}

Init == /\ input \in [bytes : {<<hd>> \o b : hd \in Headers, b \in Bodies} \cup {<<>>},
                      bias : Biases, max : Maxes]
        /\ st = Start(input.bytes)

Next == st.status = "run" /\ st' = Step(input.bytes, st) /\ UNCHANGED input

Spec == Init /\ [][Next]_<<input, st>>

\* structural invariants of the decoder run
QueueOK == st.status = "run" =>
             /\ \A i \in DOMAIN st.queue : st.queue[i].depth \in 1..HeaderH(input.bytes)
             /\ \A i \in DOMAIN st.queue : \A j \in DOMAIN st.queue : i < j => st.queue[i].depth <= st.queue[j].depth
             /\ st.pos % HeaderBF(input.bytes) = 0

\* exported once per finished run
Finished == st.status # "run"
CaseDump == Finished =>
  LET d == Decode(input.bytes, input.bias, input.max) IN
  PrintT(<<"CASE", ToJson([bytes |-> input.bytes, bias |-> input.bias, max |-> input.max,
                           err |-> d.err, ranges |-> SetToSeq(d.ranges), rem |-> d.rem])>>)

\* the decoder specification inverts the plain reference encoder
RoundTrip ==
  \A code \in 0..2 : \A S \in SUBSET (0..RoundTripMax) :
     LET bf == BFOf(code)
         h  == CHOOSE k \in 1..8 : Pow(bf, k) > RoundTripMax /\ (k = 1 \/ Pow(bf, k - 1) <= RoundTripMax)
         d  == Decode(Encode(S, code, h), 0, 1000000)
     IN ~d.err /\ Values(d.ranges) = S /\ d.rem = 0
ASSUME RoundTrip
=============================================================================
