SPECIFICATION Spec
CONSTANTS
  Headers = {14, 17, 13, 16, 20}
  Alphabet = {0, 1, 3, 5, 128, 255}
  MaxBody = 4
  Biases = {400, 511}
  Maxes = {600, 1000000000}
  RoundTripMax = 3
INVARIANTS QueueOK CaseDump
CHECK_DEADLOCK FALSE
