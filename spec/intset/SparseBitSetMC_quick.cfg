SPECIFICATION Spec
CONSTANTS
  Headers = {0, 4, 8, 12, 1, 5, 9, 2, 6, 10, 3, 7, 128, 132, 68, 50, 31, 127}
  Alphabet = {0, 1, 15, 128, 170, 255}
  MaxBody = 3
  Biases = {0, 1, 1000}
  Maxes = {0, 5, 1000, 1000000000}
  RoundTripMax = 7
INVARIANTS QueueOK CaseDump
CHECK_DEADLOCK FALSE
