SPECIFICATION Spec
CONSTANTS
  Headers = {0, 4, 8, 12, 16, 1, 5, 9, 13, 2, 6, 10, 3, 7, 11, 128, 132, 68, 50, 31, 127, 124, 65, 46}
  Alphabet = {0, 1, 15, 128, 170, 255}
  MaxBody = 4
  Biases = {0, 1, 1000}
  Maxes = {0, 5, 1000, 1000000}
  RoundTripMax = 9
INVARIANTS QueueOK CaseDump
CHECK_DEADLOCK FALSE
