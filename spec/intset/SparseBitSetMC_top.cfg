SPECIFICATION Spec
CONSTANTS
  Headers = {31, 46, 65, 124, 35, 50, 69, 27, 42}
  Alphabet = {0, 1, 255}
  MaxBody = 4
  Biases = {0}
  Maxes = {0, 1, 5, 40}
  RoundTripMax = 3
INVARIANTS QueueOK CaseDump
CHECK_DEADLOCK FALSE
