------------------------- MODULE SparseBitSetTrace -------------------------
(***************************************************************************)
(* Trace validation for the sparse-bit-set codec.  Events recorded from    *)
(* the real code:                                                          *)
(*   encode: the bytes IntSet::to_sparse_bit_set[_with_bf] produced for a  *)
(*           set - the *specification's* decoder must return that set and  *)
(*           consume every byte;                                           *)
(*   decode: what from_sparse_bit_set_bounded returned for given bytes,    *)
(*           bias and maximum - must equal the specification's result      *)
(*           (error / members as maximal ranges / unread remainder).       *)
(***************************************************************************)
EXTENDS SparseBitSet, TraceIO

Big == 1073741823

RECURSIVE ChainEnd(_, _)
ChainEnd(rs, r) == IF \E q \in rs : q[1] = r[2] + 1
                   THEN ChainEnd(rs, CHOOSE q \in rs : q[1] = r[2] + 1) ELSE r[2]
Coalesce(rs) == {<<r[1], ChainEnd(rs, r)>> : r \in {x \in rs : ~\E q \in rs : q[2] + 1 = x[1]}}
SeqAsSet(q) == {q[i] : i \in DOMAIN q}
AsPairs(q) == {<<q[i][1], q[i][2]>> : i \in DOMAIN q}

TEncode == /\ IsEvent("encode")
           /\ LET d == Decode(Ev.bytes, 0, Big) IN
                /\ ~d.err
                /\ d.rem = 0
                /\ Coalesce(d.ranges) = AsPairs(Ev.ranges)
           /\ Ev.bytes[1] % 4 = Ev.code          \* the branch factor that was asked for

TDecode == /\ IsEvent("decode")
           /\ LET d == Decode(Ev.bytes, Ev.bias, Ev.max) IN
                /\ d.err = Ev.err
                /\ ~d.err => /\ Coalesce(d.ranges) = AsPairs(Ev.ranges)
                             /\ d.rem = Ev.rem

TInit == l = 1
TNext == TEncode \/ TDecode
TraceSpec == TInit /\ [][TNext]_l
=============================================================================
