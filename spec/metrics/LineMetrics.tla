---------------------------- MODULE LineMetrics ----------------------------
(***************************************************************************)
(* Which ascent / descent / line gap skrifa's Metrics reports              *)
(* (skrifa/src/metrics.rs, Metrics::new - the strategy of FreeType):       *)
(*  1. the OS/2 typographic metrics if the table exists and its            *)
(*     USE_TYPO_METRICS flag is set;                                       *)
(*  2. otherwise the hhea metrics;                                         *)
(*  3. if those leave ascent and descent both zero and OS/2 exists: the    *)
(*     typographic metrics when either is non-zero, otherwise the Windows  *)
(*     metrics with the descent negated (the line gap stays as it was).    *)
(* All values unscaled.                                                    *)
(***************************************************************************)
EXTENDS Integers

\* f = [hasHhea, ha, hd, hg, hasOs2, useTypo, ta, td, tg, wa, wd]
Line(f) ==
  IF f.hasOs2 /\ f.useTypo THEN <<f.ta, f.td, f.tg>>
  ELSE LET a == IF f.hasHhea THEN f.ha ELSE 0
           d == IF f.hasHhea THEN f.hd ELSE 0
           g == IF f.hasHhea THEN f.hg ELSE 0
       IN IF a = 0 /\ d = 0 /\ f.hasOs2
          THEN (IF f.ta # 0 \/ f.td # 0 THEN <<f.ta, f.td, f.tg>> ELSE <<f.wa, -f.wd, g>>)
          ELSE <<a, d, g>>

\* the descent is never reported with the sign of the Windows convention: it comes from hhea / typo as it is, or negated from win
DescentSign(f) == (f.hd <= 0 /\ f.td <= 0 /\ f.wd >= 0) => Line(f)[2] <= 0
=============================================================================
