SPECIFICATION Spec
INVARIANTS SignOK CaseDump
CHECK_DEADLOCK FALSE
