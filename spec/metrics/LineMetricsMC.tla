--------------------------- MODULE LineMetricsMC ---------------------------
EXTENDS LineMetrics, Json, TLC
VARIABLE f
Init == \E hh \in BOOLEAN, ha \in {0, 800}, hd \in {0, -200}, hg \in {0, 90}, os \in BOOLEAN, ut \in BOOLEAN,
           ta \in {0, 700}, td \in {0, -300}, tg \in {0, 50}, wa \in {0, 900}, wd \in {0, 250} :
          f = [hasHhea |-> hh, ha |-> ha, hd |-> hd, hg |-> hg, hasOs2 |-> os, useTypo |-> ut, ta |-> ta, td |-> td, tg |-> tg, wa |-> wa, wd |-> wd]
Next == UNCHANGED f
Spec == Init /\ [][Next]_f
SignOK == DescentSign(f)
CaseDump == PrintT(<<"LINECASE", ToJson([font |-> f, line |-> Line(f)])>>)
=============================================================================
