------------------------------ MODULE CmapIter ------------------------------
(***************************************************************************)
(* The clamping rule of read-fonts' cmap iterators (Cmap4Iter, Cmap12Iter  *)
(* in read-fonts/src/tables/cmap.rs) over arbitrary - overlapping,         *)
(* descending, contained, huge - segment / group lists:                    *)
(*    the current range is [lo, hi) (hi exclusive); when it is exhausted   *)
(*    the next group [s, e] becomes [max(s, hi), max(e + 1, hi)) - neither *)
(*    end of the range ever moves backwards.                               *)
(* Format 12 additionally cuts each group at the glyph-count and max-char  *)
(* limits before clamping.                                                 *)
(* Checked for every list of <= 3 groups over a boundary alphabet: the     *)
(* yielded code points are strictly ascending, hence at most MaxChar + 1   *)
(* in total whatever the number of groups (no super-linear iteration).     *)
(* The yield sequences are exported and compared with the real iterators.  *)
(***************************************************************************)
EXTENDS Integers, Sequences, FiniteSets

CONSTANTS Lists,       \* set of group lists; a group is <<start, end, startGlyph>>
          MaxChar, GlyphCount,
          Fmt          \* 4 | 12
VARIABLES groups, ix, lo, hi, out, status
vars == <<groups, ix, lo, hi, out, status>>

Min(a, b) == IF a < b THEN a ELSE b
Max(a, b) == IF a > b THEN a ELSE b
\* exclusive end of group g after the format 12 limits
EndOf(g) == IF Fmt = 12 THEN Min(Max(GlyphCount - g[3], 0) + g[1], Min(g[2] + 1, MaxChar + 1)) ELSE g[2] + 1

Init == /\ groups \in Lists /\ ix = 1 /\ out = <<>> /\ status = "run"
        /\ lo = (IF groups = <<>> THEN 0 ELSE groups[1][1])
        /\ hi = (IF groups = <<>> THEN 0 ELSE EndOf(groups[1]))
Yield == /\ status = "run" /\ groups # <<>> /\ lo < hi
         /\ out' = Append(out, lo) /\ lo' = lo + 1 /\ UNCHANGED <<groups, ix, hi, status>>
NextGroup ==
  /\ status = "run" /\ (groups = <<>> \/ lo >= hi)
  /\ IF groups = <<>> \/ ix + 1 > Len(groups) THEN status' = "done" /\ UNCHANGED <<groups, ix, lo, hi, out>>
     ELSE LET g == groups[ix + 1] IN
          /\ ix' = ix + 1
          /\ lo' = Max(g[1], hi) /\ hi' = Max(EndOf(g), hi)
          /\ UNCHANGED <<groups, out, status>>
Next == Yield \/ NextGroup
Spec == Init /\ [][Next]_vars /\ WF_vars(Next)

Ascending == \A i \in 1..(Len(out) - 1) : out[i] < out[i + 1]
Bounded == Len(out) <= MaxChar + 1
HiMonotone == [][hi' >= hi]_vars
Halts == <>(status = "done")
=============================================================================
