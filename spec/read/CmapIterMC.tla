----------------------------- MODULE CmapIterMC -----------------------------
EXTENDS CmapIter, TLC, Json
SeqsUpTo(S, n) == UNION {[1..k -> S] : k \in 0..n}
\* wide / contained / shifted / descending / single / repeated
G4 == {<<3, 9, 1>>, <<3, 5, 1>>, <<5, 12, 1>>, <<1, 2, 1>>, <<9, 3, 1>>, <<7, 7, 1>>, <<0, 14, 1>>}
G12 == {<<3, 9, 1>>, <<3, 5, 30>>, <<5, 12, 1>>, <<9, 3, 1>>, <<0, 40, 0>>, <<10, 20, 36>>, <<38, 39, 5>>}
Lists4 == SeqsUpTo(G4, 3)
Lists12 == SeqsUpTo(G12, 3)
Dump == (status = "done") => PrintT(<<"ITER", ToJson([fmt |-> Fmt, groups |-> groups, yields |-> out])>>)
=============================================================================
