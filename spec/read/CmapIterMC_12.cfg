SPECIFICATION Spec
CONSTANTS
  Lists <- Lists12
  MaxChar = 34
  GlyphCount = 40
  Fmt = 12
INVARIANTS Ascending Bounded Dump
PROPERTIES HiMonotone Halts
CHECK_DEADLOCK FALSE
