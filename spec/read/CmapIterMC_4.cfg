SPECIFICATION Spec
CONSTANTS
  Lists <- Lists4
  MaxChar = 65535
  GlyphCount = 65535
  Fmt = 4
INVARIANTS Ascending Bounded Dump
PROPERTIES HiMonotone Halts
CHECK_DEADLOCK FALSE
