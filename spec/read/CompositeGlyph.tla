--------------------------- MODULE CompositeGlyph ---------------------------
(***************************************************************************)
(* The component records of a TrueType composite glyph (OpenType 'glyf':   *)
(* flags, glyph id, two arguments of one or two bytes, an optional 2.14    *)
(* scale / x-y scale / 2x2 matrix, repeated while MORE_COMPONENTS is set,  *)
(* then optional instructions) as read by read-fonts                       *)
(* (read-fonts/src/tables/glyf.rs): the full iterator behind               *)
(* CompositeGlyph::components and the fast one behind                      *)
(* component_glyphs_and_flags / count_and_instructions, which skips the    *)
(* arguments and the transform without looking at them.                    *)
(*                                                                         *)
(* Both are total on every byte string.  They differ on truncated data -   *)
(* the fast one still yields a component whose arguments or transform are  *)
(* cut off - and the model says exactly how: the full list is a prefix of  *)
(* the fast list, they are equal when every record is complete, and the    *)
(* fast count exceeds the full count by at most one.                       *)
(***************************************************************************)
EXTENDS Integers, Sequences, Json, TLC

ARGWORDS == 1  ARGSXY == 2  SCALE == 8  MORE == 32  XYSCALE == 64  TWOBYTWO == 128  INSTR == 256
Has(f, bit) == (f \div bit) % 2 = 1
U16(d, p) == d[p] * 256 + d[p + 1]
I16(d, p) == LET u == U16(d, p) IN IF u >= 32768 THEN u - 65536 ELSE u
I8(b) == IF b >= 128 THEN b - 256 ELSE b
ArgLen(f) == IF Has(f, ARGWORDS) THEN 4 ELSE 2
XfLen(f) == IF Has(f, SCALE) THEN 2 ELSE IF Has(f, XYSCALE) THEN 4 ELSE IF Has(f, TWOBYTWO) THEN 8 ELSE 0
Avail(d, p, n) == p + n - 1 <= Len(d)

\* one complete record at position p
Record(d, p) ==
  LET f == U16(d, p)  a == p + 4  t == a + ArgLen(f) IN
  [flags |-> f, glyph |-> U16(d, p + 2),
   xy |-> Has(f, ARGSXY),
   args |-> IF Has(f, ARGWORDS) THEN (IF Has(f, ARGSXY) THEN <<I16(d, a), I16(d, a + 2)>> ELSE <<U16(d, a), U16(d, a + 2)>>)
            ELSE (IF Has(f, ARGSXY) THEN <<I8(d[a]), I8(d[a + 1])>> ELSE <<d[a], d[a + 1]>>),
   \* xx, yx, xy, yy as 2.14 bits (identity = 16384)
   xf |-> IF Has(f, SCALE) THEN <<I16(d, t), 0, 0, I16(d, t)>>
          ELSE IF Has(f, XYSCALE) THEN <<I16(d, t), 0, 0, I16(d, t + 2)>>
          ELSE IF Has(f, TWOBYTWO) THEN <<I16(d, t), I16(d, t + 2), I16(d, t + 4), I16(d, t + 6)>>
          ELSE <<16384, 0, 0, 16384>>]

\* the full iterator: a record is yielded only when all of it is there
RECURSIVE Full(_, _, _)
Full(d, p, acc) ==
  IF ~Avail(d, p, 4) THEN acc
  ELSE LET f == U16(d, p)  n == 4 + ArgLen(f) + XfLen(f) IN
       IF ~Avail(d, p, n) THEN acc
       ELSE IF Has(f, MORE) THEN Full(d, p + n, Append(acc, Record(d, p))) ELSE Append(acc, Record(d, p))

\* the fast iterator: flags and glyph id must be there, the rest is skipped (the position saturates at the end);
\* result [list, pos, last] - last = the last flags word read, also when the glyph id after it was missing
RECURSIVE Fast(_, _, _, _)
Fast(d, p, acc, last) ==
  IF ~Avail(d, p, 2) THEN [list |-> acc, pos |-> p, last |-> last]
  ELSE LET f == U16(d, p) IN
       IF ~Avail(d, p, 4) THEN [list |-> acc, pos |-> Len(d) + 1, last |-> f]
       ELSE LET q0 == p + 4 + ArgLen(f) + XfLen(f)  q == IF q0 > Len(d) + 1 THEN Len(d) + 1 ELSE q0
                a2 == Append(acc, <<U16(d, p + 2), f>>) IN
            IF Has(f, MORE) THEN Fast(d, q, a2, f) ELSE [list |-> a2, pos |-> q, last |-> f]

\* instructions after the records, as count_and_instructions finds them: -1 = none
Instructions(d) ==
  LET r == Fast(d, 1, <<>>, 0) IN
  IF ~Has(r.last, INSTR) \/ ~Avail(d, r.pos, 2) THEN -1
  ELSE LET n == U16(d, r.pos) IN IF Avail(d, r.pos + 2, n) THEN n ELSE -1

Ids(full) == [i \in DOMAIN full |-> <<full[i].glyph, full[i].flags>>]
IsPrefix(a, b) == Len(a) <= Len(b) /\ \A i \in DOMAIN a : a[i] = b[i]
\* every record complete: the strict OpenType reading is defined
RECURSIVE Complete(_, _)
Complete(d, p) == /\ Avail(d, p, 4)
                  /\ LET f == U16(d, p)  n == 4 + ArgLen(f) + XfLen(f) IN
                     Avail(d, p, n) /\ (Has(f, MORE) => Complete(d, p + n))

FullIsPrefixOfFast(d) == IsPrefix(Ids(Full(d, 1, <<>>)), Fast(d, 1, <<>>, 0).list)
AtMostOneMore(d) == Len(Fast(d, 1, <<>>, 0).list) <= Len(Full(d, 1, <<>>)) + 1
EqualWhenComplete(d) == Complete(d, 1) => Ids(Full(d, 1, <<>>)) = Fast(d, 1, <<>>, 0).list
=============================================================================
