-------------------------- MODULE CompositeGlyphMC --------------------------
(***************************************************************************)
(* Family: up to MaxRecords component records with flags from FlagSet      *)
(* (every argument form and transform kind, with and without               *)
(* MORE_COMPONENTS / WE_HAVE_INSTRUCTIONS), bytes from a pattern, an       *)
(* instruction tail, cut short by 0..Cut bytes.  TLC checks the three      *)
(* statements of CompositeGlyph.tla on every member and exports it with    *)
(* both readings for replay on the real iterators.                         *)
(***************************************************************************)
EXTENDS CompositeGlyph

CONSTANTS MaxRecords, Cut, FlagSet
VARIABLES d

Pattern(k) == IF k % 4 = 0 THEN 255 ELSE IF k % 4 = 1 THEN 128 ELSE IF k % 4 = 2 THEN 64 ELSE (11 * k) % 256
Rec(f, g, k) == <<f \div 256, f % 256, 0, g>> \o [i \in 1..(ArgLen(f) + XfLen(f)) |-> Pattern(k + i)]
RECURSIVE Flat(_, _)
Flat(fs, k) == IF fs = <<>> THEN <<>> ELSE Rec(Head(fs), Len(fs), k) \o Flat(Tail(fs), k + 3)
FlagLists == UNION {[1..n -> FlagSet] : n \in 1..MaxRecords}
Tails == {<<>>, <<0, 0>>, <<0, 2, 176, 177>>, <<0, 3, 176>>, <<255, 255>>}
Member(fs, tail, cut) == LET all == Flat(fs, 1) \o tail IN SubSeq(all, 1, IF Len(all) - cut < 0 THEN 0 ELSE Len(all) - cut)

Init == \E fs \in FlagLists, tail \in Tails, cut \in 0..Cut : d = Member(fs, tail, cut)
Next == UNCHANGED d
Spec == Init /\ [][Next]_d

PrefixOK == FullIsPrefixOfFast(d)
OneMoreOK == AtMostOneMore(d)
EqualOK == EqualWhenComplete(d)
CaseDump == PrintT(<<"CGCASE", ToJson([data |-> d, full |-> Full(d, 1, <<>>), fast |-> Fast(d, 1, <<>>, 0).list,
                                       instr |-> Instructions(d), complete |-> Complete(d, 1)])>>)
=============================================================================
