SPECIFICATION Spec
CONSTANTS
  MaxRecords = 2
  Cut = 3
  FlagSet = {0, 1, 2, 3, 11, 34, 35, 99, 130, 163, 256, 290, 427, 168, 200}
INVARIANTS PrefixOK OneMoreOK EqualOK CaseDump
CHECK_DEADLOCK FALSE
