SPECIFICATION Spec
INVARIANTS ClosureSane CaseDump
CHECK_DEADLOCK FALSE
