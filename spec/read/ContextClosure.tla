--------------------------- MODULE ContextClosure ---------------------------
(***************************************************************************)
(* Glyph closure over (chained) sequence context lookups, GSUB types 5 / 6 *)
(* in their three formats, as far as the lookup records are concerned: a   *)
(* rule with an input sequence of 1 + n glyphs (the covered first glyph    *)
(* 10, then 11, 12) and lookup records (sequenceIndex, nested lookup).      *)
(* The nested lookup is a single substitution g -> g + 100.  Starting from  *)
(* the glyph set {10, 11, 12} every rule of the family matches, and a      *)
(* record applies the nested lookup to the glyph at its sequence index:    *)
(* index 0 is the covered glyph, 1..n the input sequence, and an index     *)
(* beyond the rule's input (font data may say anything) applies to nothing.*)
(* Also enumerated: range-format coverage tables whose start coverage      *)
(* index sits at the top of its 16-bit range.                              *)
(* Cases are exported for replay on Gsub::closure_glyphs / CoverageTable.  *)
(***************************************************************************)
EXTENDS Integers, Sequences, FiniteSets, Json, TLC

VARIABLE c
Start == {10, 11, 12}
SeqIdx == {0, 1, 2, 3, 65535}
Cases == {[kind |-> "ctx", fmt |-> f, chain |-> ch, n |-> n, recs |-> r] :
             f \in 1..3, ch \in BOOLEAN, n \in 0..2, r \in {<<a>> : a \in SeqIdx} \cup {<<a, b>> : a \in SeqIdx, b \in {0, 2, 65535}}}
CovCases == {[kind |-> "cov", ranges |-> r] : r \in {<<<<20, 22, s>>>> : s \in {0, 1, 65533, 65534, 65535}}
                                                   \cup {<<<<20, 20, 0>>, <<30, 33, s>>>> : s \in {1, 65532, 65535}}}

\* Device tables with any start / end size and delta format word (1..3 are the packed formats, 0x8000 marks a variation
\* index, anything else is unknown), followed by 0..2 data words: iterating the deltas yields at most end - start + 1 values
DevCases == {[kind |-> "dev", start |-> a, end |-> b, fmt |-> f, words |-> w] : a \in {0, 1, 5, 65535}, b \in {0, 1, 5, 65535}, f \in {0, 1, 2, 3, 4, 32768}, w \in 0..2}
DevMax(case) == IF case.end >= case.start THEN case.end - case.start + 1 ELSE 0

Active(case, k) == IF k = 0 THEN {10} ELSE IF k <= case.n THEN {10 + k} ELSE {}
\* a sequence index that an earlier record of the rule already used need not be tracked: the nested lookup may then be
\* applied to every glyph of the current set (an over-approximation the implementation takes from HarfBuzz for formats 1
\* and 2). The closure lies between the exact set and that over-approximation.
RecActiveMax(case, i) == IF \E j \in 1..(i - 1) : case.recs[j] = case.recs[i] THEN Start ELSE Active(case, case.recs[i])
ClosureMin(case) == Start \cup {g + 100 : g \in UNION {Active(case, case.recs[i]) : i \in DOMAIN case.recs}}
ClosureMax(case) == Start \cup {g + 100 : g \in UNION {RecActiveMax(case, i) : i \in DOMAIN case.recs}}
SetToSeq(S) == LET RECURSIVE F(_) F(T) == IF T = {} THEN <<>> ELSE LET m == CHOOSE x \in T : \A y \in T : x <= y IN <<m>> \o F(T \ {m}) IN F(S)

Init == c \in Cases \cup CovCases \cup DevCases
Spec == Init /\ [][UNCHANGED c]_c
\* the closure never loses a glyph and only adds images of the rule's own glyphs
ClosureSane == c.kind = "ctx" => (Start \subseteq ClosureMin(c) /\ ClosureMin(c) \subseteq ClosureMax(c) /\ ClosureMax(c) \subseteq Start \cup {110, 111, 112})
CaseDump == PrintT(<<"LAYCASE", ToJson(IF c.kind = "ctx" THEN [kind |-> "ctx", fmt |-> c.fmt, chain |-> c.chain, n |-> c.n, recs |-> c.recs, closure_min |-> SetToSeq(ClosureMin(c)), closure_max |-> SetToSeq(ClosureMax(c))]
                                        ELSE IF c.kind = "cov" THEN [kind |-> "cov", ranges |-> c.ranges]
                                        ELSE [kind |-> "dev", start |-> c.start, end |-> c.end, fmt |-> c.fmt, words |-> c.words, max |-> DevMax(c)])>>)
=============================================================================
