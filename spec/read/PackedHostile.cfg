SPECIFICATION Spec
CONSTANTS
  Bytes <- AlphabetB
  MaxLen = 3
INVARIANT Dump
CHECK_DEADLOCK FALSE
