---------------------------- MODULE PackedHostile ----------------------------
(***************************************************************************)
(* Hostile packed-delta streams for the gvar tuple decoders: every byte    *)
(* string of <= 3 bytes over a control-byte alphabet (run lengths 1, 2,    *)
(* 64; zero / byte / word / long runs; truncated runs) behind a fixed set  *)
(* of private point-number lists.  A robust decoder yields at most one     *)
(* delta pair per listed point and stops when the data ends:               *)
(*   Avail(d) = number of values that can be decoded before the stream     *)
(*   ends (a run cut short counts only its complete values).               *)
(* The cases are exported for replay on TupleVariation::deltas (bounded    *)
(* number of yields, termination).                                         *)
(***************************************************************************)
EXTENDS Integers, Sequences, FiniteSets, TLC, Json

CONSTANTS Bytes, MaxLen
VARIABLES d, pts
SeqsUpTo(S, n) == UNION {[1..k -> S] : k \in 0..n}
PointLists == {<<1, 0, 2>>, <<2, 1, 0, 3>>, <<3, 2, 1, 1, 1>>, <<1, 0, 200>>}        \* packed: count, control, deltas
NPoints(p) == p[1]

RECURSIVE Avail(_, _)
Avail(s, off) ==
  IF off + 1 > Len(s) THEN 0
  ELSE LET c == s[off + 1]
           n == (c % 64) + 1
           width == IF c >= 192 THEN 4 ELSE IF c >= 128 THEN 0 ELSE IF c >= 64 THEN 2 ELSE 1
           room == Len(s) - (off + 1)
           complete == IF width = 0 THEN n ELSE IF room \div width < n THEN room \div width ELSE n
       IN IF complete < n THEN complete ELSE n + Avail(s, off + 1 + n * width)

Init == d \in SeqsUpTo(Bytes, MaxLen) /\ pts \in PointLists
Spec == Init /\ [][UNCHANGED <<d, pts>>]_<<d, pts>>
Dump == PrintT(<<"PACKED", ToJson([points |-> pts, deltas |-> d, npoints |-> NPoints(pts), avail |-> Avail(d, 0)])>>)
AlphabetB == {0, 1, 5, 63, 64, 65, 127, 128, 129, 191, 192, 255}
=============================================================================
