---------------------------- MODULE ReadProtocol ----------------------------
(***************************************************************************)
(* The read-time validation protocol of read-fonts                         *)
(* (read-fonts/src/font_data.rs `Cursor`, used by every generated          *)
(* `FontRead::read`):                                                      *)
(*                                                                         *)
(*   a cursor walks over `L` bytes with a SATURATING position; scalars     *)
(*   that shape the table (counts, formats, offsets) are read on the way   *)
(*   and fail the read when out of bounds; array / computed lengths are    *)
(*   formed with CHECKED multiplication and addition; everything else is   *)
(*   only skipped (`advance`); the byte range of every field is recorded   *)
(*   in the table's marker; ONE bounds check at `finish` licenses the      *)
(*   `unwrap()`s of every generated getter.                                *)
(*                                                                         *)
(* Huge stands for usize::MAX.  Theorem checked by TLC for every program   *)
(* of steps over small operands (including counts whose product            *)
(* overflows):                                                             *)
(*      finish = Ok  =>  every recorded field range lies inside [0, L]     *)
(* and the position never decreases.                                       *)
(* The deliberately broken variants (wrapping add, unchecked multiply,     *)
(* `finish` that forgets the check) are rejected - see ReadProtocolMC.     *)
(***************************************************************************)
EXTENDS Integers, Sequences, FiniteSets

CONSTANTS MaxLen, Huge, MaxSteps,
          Variant          \* "real" | "wrapping_add" | "unchecked_mul" | "no_finish_check"

VARIABLES L, pos, fields, st, nsteps
vars == <<L, pos, fields, st, nsteps>>

Sat(x) == IF x > Huge THEN Huge ELSE x
Wrap(x) == x % (Huge + 1)
Add(a, b) == IF Variant = "wrapping_add" THEN Wrap(a + b) ELSE Sat(a + b)

Init == L \in 0..MaxLen /\ pos = 0 /\ fields = <<>> /\ st = "open" /\ nsteps = 0

\* cursor.advance::<T>() / advance_by(n): skip a field, remember its range
Advance(n) ==
  /\ st = "open" /\ nsteps < MaxSteps
  /\ fields' = Append(fields, <<pos, Add(pos, n), n>>)
  /\ pos' = Add(pos, n) /\ nsteps' = nsteps + 1
  /\ UNCHANGED <<L, st>>

\* cursor.read::<T>(): a shape scalar; out of bounds aborts the read (the `?`)
ReadScalar(w) ==
  /\ st = "open" /\ nsteps < MaxSteps
  /\ IF pos + w <= L
     THEN /\ fields' = Append(fields, <<pos, pos + w, w>>) /\ pos' = Add(pos, w) /\ st' = "open"
     ELSE /\ st' = "err" /\ UNCHANGED <<fields, pos>>
  /\ nsteps' = nsteps + 1 /\ UNCHANGED L

\* a count read earlier times an element size: checked_mul, then the range is skipped (not read) -
\* the array getter will slice it later
SkipArray(count, w) ==
  /\ st = "open" /\ nsteps < MaxSteps
  /\ LET len == IF Variant = "unchecked_mul" THEN Wrap(count * w) ELSE count * w IN
     IF len > Huge
     THEN st' = "err" /\ UNCHANGED <<fields, pos>>                    \* checked_mul -> OutOfBounds
     ELSE /\ fields' = Append(fields, <<pos, Add(pos, len), count * w>>) /\ pos' = Add(pos, len) /\ st' = "open"
  /\ nsteps' = nsteps + 1 /\ UNCHANGED L

\* cursor.read_array / read_with_args: checked end, sliced immediately
ReadRange(len) ==
  /\ st = "open" /\ nsteps < MaxSteps
  /\ IF pos + len > Huge \/ pos + len > L
     THEN st' = "err" /\ UNCHANGED <<fields, pos>>
     ELSE /\ fields' = Append(fields, <<pos, pos + len, len>>) /\ pos' = Add(pos, len) /\ st' = "open"
  /\ nsteps' = nsteps + 1 /\ UNCHANGED L

Finish ==
  /\ st = "open"
  /\ st' = IF pos <= L \/ Variant = "no_finish_check" THEN "ok" ELSE "err"
  /\ UNCHANGED <<L, pos, fields, nsteps>>

Operands == {0, 1, 2, 3, Huge - 1, Huge}
Next == \/ \E n \in Operands : Advance(n)
        \/ \E w \in {1, 2, 4} : ReadScalar(w)
        \/ \E c \in Operands, w \in {1, 2, 4, 6} : SkipArray(c, w)
        \/ \E n \in Operands : ReadRange(n)
        \/ Finish
Spec == Init /\ [][Next]_vars

\* ---- the theorem -------------------------------------------------------------------------------
GettersInBounds == st = "ok" => \A i \in DOMAIN fields : fields[i][1] <= fields[i][2] /\ fields[i][2] <= L
Monotone == [][pos' >= pos]_vars
\* a field is as long as its count / width say (a wrapped product would silently shorten an array)
LengthsFaithful == st = "ok" => \A i \in DOMAIN fields : fields[i][2] - fields[i][1] = fields[i][3]
FieldsContiguous == \A i \in 1..(Len(fields) - 1) : fields[i][2] = fields[i + 1][1] \/ st # "ok"
=============================================================================
