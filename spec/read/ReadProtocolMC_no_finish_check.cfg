SPECIFICATION Spec
CONSTANTS
  MaxLen = 5
  Huge = 11
  MaxSteps = 4
  Variant = "no_finish_check"
INVARIANTS GettersInBounds LengthsFaithful
PROPERTIES Monotone
CHECK_DEADLOCK FALSE
