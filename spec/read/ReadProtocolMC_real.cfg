SPECIFICATION Spec
CONSTANTS
  MaxLen = 5
  Huge = 11
  MaxSteps = 4
  Variant = "real"
INVARIANTS GettersInBounds LengthsFaithful
PROPERTIES Monotone
CHECK_DEADLOCK FALSE
