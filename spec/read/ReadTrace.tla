------------------------------ MODULE ReadTrace ------------------------------
(***************************************************************************)
(* Trace validation of recorded cursor sessions (hook H3): every session   *)
(* of read-fonts' Cursor - one per table or record read - must be a        *)
(* behaviour of ReadProtocol.tla:                                          *)
(*   1 advance        position' = Sat(position + n)                        *)
(*   2 read scalar    at the current position; Ok iff it fits in the data  *)
(*   6 read range     at the current position; Ok only if it fits          *)
(*   3 finish / 4 position   Ok iff position <= length                     *)
(*   5 remaining_bytes       = max(length - position, 0)                   *)
(* Numbers are clamped by the harness to Huge = 2^30 (beyond every table), *)
(* which commutes with saturating addition.                                *)
(* For every accepted session the specification also derives the inputs of *)
(* the second phase (printed as MUT lines): the field boundaries reached   *)
(* and the positions of the shape scalars read, where the harness          *)
(* truncates / overwrites the table and reads it again.                    *)
(***************************************************************************)
EXTENDS Integers, Sequences, FiniteSets, TraceIO

Huge == 1073741824
Sat(x) == IF x > Huge THEN Huge ELSE x

\* fold over the steps; state = [pos, ok]
RECURSIVE Run(_, _, _, _)
Run(steps, i, L, pos) ==
  IF i > Len(steps) THEN TRUE
  ELSE LET k == steps[i][1]  a == steps[i][2]  b == steps[i][3]  ok == steps[i][4] IN
       CASE k = 1 -> b = Sat(pos + a) /\ Run(steps, i + 1, L, b)
         [] k = 2 -> b = pos /\ (ok <=> pos + a <= L) /\ Run(steps, i + 1, L, pos)
         [] k = 6 -> b = pos /\ (ok => pos + a <= L) /\ Run(steps, i + 1, L, pos)
         [] k = 3 -> a = pos /\ (ok <=> pos <= L) /\ Run(steps, i + 1, L, pos)
         [] k = 4 -> a = pos /\ (ok <=> pos <= L) /\ Run(steps, i + 1, L, pos)
         [] k = 5 -> a = pos /\ b = (IF L > pos THEN L - pos ELSE 0) /\ Run(steps, i + 1, L, pos)
         [] OTHER -> FALSE

\* second-phase inputs
Cuts(steps, L) == {steps[i][3] : i \in {j \in DOMAIN steps : steps[j][1] = 1 /\ steps[j][3] <= L}}
Scalars(steps) == {<<steps[i][3], steps[i][2]>> : i \in {j \in DOMAIN steps : steps[j][1] = 2 /\ steps[j][4]}}
SetSeq(S) == LET RECURSIVE R(_) R(T) == IF T = {} THEN <<>> ELSE LET m == CHOOSE x \in T : \A y \in T : x <= y IN <<m>> \o R(T \ {m}) IN R(S)
PairSeq(S) == LET RECURSIVE R(_) R(T) == IF T = {} THEN <<>> ELSE LET m == CHOOSE x \in T : \A y \in T : x[1] < y[1] \/ (x[1] = y[1] /\ x[2] <= y[2]) IN <<m>> \o R(T \ {m}) IN R(S)

TCursor ==
  /\ IsEvent("cursor")
  /\ Ev.len <= Huge
  /\ Run(Ev.steps, 1, Ev.len, 0)
  /\ (Ev.mutate => PrintT(<<"MUT", ToJson([sid |-> Ev.sid, cuts |-> SetSeq(Cuts(Ev.steps, Ev.len)), scalars |-> PairSeq(Scalars(Ev.steps))])>>))

\* hand-written decoders driven with model-enumerated hostile inputs (CmapIter.tla, PackedHostile.tla)
TCmapIter == IsEvent("cmapiter") /\ Ev.n <= (IF Ev.fmt = 4 THEN 65536 ELSE 35)
TPacked == IsEvent("packed") /\ Ev.outcome \in {"value", "error"} /\ Ev.yields <= Ev.npoints

\* hostile layout tables of ContextClosure.tla: the closure / coverage helpers answer with a value or an error
TLayHostile == IsEvent("layhostile") /\ Ev.outcome \in {"value", "error"}

\* SimpleGlyph.tla members through read_points_fast: n points or an error
TSimpleGlyph == IsEvent("simpleglyph") /\ Ev.outcome \in {"value", "error"} /\ (Ev.outcome = "value" => Ev.points = Ev.n)

\* CompositeGlyph.tla members: the full iterator yields a prefix of what the fast one yields, at most one record less,
\* and count_and_instructions counts what the fast one yields
TCompositeGlyph == /\ IsEvent("compositeglyph")
                   /\ Ev.full <= Ev.fast /\ Ev.fast <= Ev.full + 1 /\ Ev.count = Ev.fast
                   /\ \A i \in DOMAIN Ev.ids_full : Ev.ids_full[i] = Ev.ids_fast[i]

TInit == l = 1
TraceSpec == TInit /\ [][TCursor \/ TCmapIter \/ TPacked \/ TLayHostile \/ TSimpleGlyph \/ TCompositeGlyph]_l
=============================================================================
