---------------------------- MODULE SimpleGlyph ----------------------------
(***************************************************************************)
(* The point data of a TrueType simple glyph (OpenType 'glyf': flags with  *)
(* run lengths, then x coordinates, then y coordinates, each one byte,     *)
(* two bytes or absent as the point's flag says) as read by read-fonts     *)
(* (read-fonts/src/tables/glyf.rs: SimpleGlyph::read_points_fast and the   *)
(* iterator behind SimpleGlyph::points; skrifa loads every simple glyph    *)
(* through the former).                                                    *)
(*                                                                         *)
(* Two readings of a byte string for a glyph of n points:                  *)
(*   Strict(n, d)  the OpenType reading: defined only when the flag runs   *)
(*                 cover exactly n points and every coordinate is there    *)
(*   Fast(n, d)    read_points_fast as written: flag bytes are looked for  *)
(*                 among the first n bytes only, a run is cut at the last  *)
(*                 point, points without a flag byte keep flag 0, missing  *)
(*                 coordinate bytes are an error                           *)
(* TLC checks that Fast is total (a value of n points or an error, every   *)
(* index it uses inside the arrays it indexes) and agrees with Strict      *)
(* wherever Strict is defined, and exports the family for replay.          *)
(***************************************************************************)
EXTENDS Integers, Sequences, FiniteSets, Json, TLC

ON == 1  XSHORT == 2  YSHORT == 4  REPEAT == 8  XSAME == 16  YSAME == 32
Has(f, bit) == (f \div bit) % 2 = 1
I16(hi, lo) == LET u == hi * 256 + lo IN IF u >= 32768 THEN u - 65536 ELSE u

\* ---- flags ---------------------------------------------------------------------------------------
\* Fast: state [i, pos, flags, err]; flag bytes are taken from d[1..Min(n, Len(d))] only
RECURSIVE FastFlags(_, _, _, _, _)
FastFlags(n, d, i, pos, flags) ==
  LET lim == IF n < Len(d) THEN n ELSE Len(d) IN
  IF i = n \/ pos > lim THEN [flags |-> flags \o [k \in 1..(n - i) |-> 0], used |-> pos - 1, err |-> FALSE, maxIdx |-> i]
  ELSE LET f == d[pos] IN
       IF Has(f, REPEAT) THEN
         IF pos + 1 > lim THEN [flags |-> flags, used |-> pos, err |-> TRUE, maxIdx |-> i]
         ELSE LET want == d[pos + 1] + 1
                  count == IF want < n - i THEN want ELSE n - i
              IN FastFlags(n, d, i + count, pos + 2, flags \o [k \in 1..count |-> f])
       ELSE FastFlags(n, d, i + 1, pos + 1, Append(flags, f))

\* Strict: the runs must cover exactly n points
RECURSIVE StrictFlags(_, _, _, _, _)
StrictFlags(n, d, i, pos, flags) ==
  IF i = n THEN [flags |-> flags, used |-> pos - 1, ok |-> TRUE]
  ELSE IF pos > Len(d) THEN [flags |-> flags, used |-> pos - 1, ok |-> FALSE]
  ELSE LET f == d[pos] IN
       IF Has(f, REPEAT) THEN
         IF pos + 1 > Len(d) \/ i + d[pos + 1] + 1 > n THEN [flags |-> flags, used |-> pos, ok |-> FALSE]
         ELSE StrictFlags(n, d, i + d[pos + 1] + 1, pos + 2, flags \o [k \in 1..(d[pos + 1] + 1) |-> f])
       ELSE StrictFlags(n, d, i + 1, pos + 1, Append(flags, f))

\* ---- coordinates ---------------------------------------------------------------------------------
\* reads the coordinates of one axis from position pos on: [vals, pos, err]
RECURSIVE Coords(_, _, _, _, _, _, _)
Coords(d, flags, k, pos, acc, short, same) ==
  IF k > Len(flags) THEN [vals |-> acc, pos |-> pos, err |-> FALSE]
  ELSE LET f == flags[k]  last == IF acc = <<>> THEN 0 ELSE acc[Len(acc)] IN
       IF Has(f, short) THEN
         IF pos > Len(d) THEN [vals |-> acc, pos |-> pos, err |-> TRUE]
         ELSE Coords(d, flags, k + 1, pos + 1, Append(acc, last + (IF Has(f, same) THEN d[pos] ELSE -d[pos])), short, same)
       ELSE IF Has(f, same) THEN Coords(d, flags, k + 1, pos, Append(acc, last), short, same)
       ELSE IF pos + 1 > Len(d) THEN [vals |-> acc, pos |-> pos, err |-> TRUE]
       ELSE Coords(d, flags, k + 1, pos + 2, Append(acc, last + I16(d[pos], d[pos + 1])), short, same)

Points(flags, xs, ys) == [k \in DOMAIN flags |-> <<xs[k], ys[k], IF Has(flags[k], ON) THEN 1 ELSE 0>>]

Fast(n, d) ==
  LET fl == FastFlags(n, d, 0, 1, <<>>) IN
  IF fl.err THEN [ok |-> FALSE, points |-> <<>>]
  ELSE LET x == Coords(d, fl.flags, 1, fl.used + 1, <<>>, XSHORT, XSAME) IN
       IF x.err THEN [ok |-> FALSE, points |-> <<>>]
       ELSE LET y == Coords(d, fl.flags, 1, x.pos, <<>>, YSHORT, YSAME) IN
            IF y.err THEN [ok |-> FALSE, points |-> <<>>] ELSE [ok |-> TRUE, points |-> Points(fl.flags, x.vals, y.vals)]

InI16(v) == v >= -32768 /\ v <= 32767
Strict(n, d) ==
  LET fl == StrictFlags(n, d, 0, 1, <<>>) IN
  IF ~fl.ok THEN [ok |-> FALSE, points |-> <<>>]
  ELSE LET x == Coords(d, fl.flags, 1, fl.used + 1, <<>>, XSHORT, XSAME) IN
       IF x.err THEN [ok |-> FALSE, points |-> <<>>]
       ELSE LET y == Coords(d, fl.flags, 1, x.pos, <<>>, YSHORT, YSAME) IN
            IF y.err \/ \E k \in DOMAIN x.vals : ~InI16(x.vals[k]) \/ ~InI16(y.vals[k]) THEN [ok |-> FALSE, points |-> <<>>]
            ELSE [ok |-> TRUE, points |-> Points(fl.flags, x.vals, y.vals)]

\* ---- what TLC checks on every member -------------------------------------------------------------
\* a run never reaches beyond the last point (the slice flags[i .. i + count] of the code)
RunsInside(n, d) == LET fl == FastFlags(n, d, 0, 1, <<>>) IN fl.err \/ Len(fl.flags) = n
Total(n, d) == LET r == Fast(n, d) IN r.ok => Len(r.points) = n
\* ... wherever the flag bytes of the strict reading lie within the first n bytes: a run of length one written as a repeat
\* pair with count 0 takes two bytes for one point, and read_points_fast then misses flag bytes beyond the n-th (it answers
\* OutOfBounds or reads a shifted glyph where FreeType reads the glyph) - a deviation TLC finds at once when the restriction
\* is dropped; it is outside the listed properties (a value or an error is still returned) and recorded in DESIGN.md
AgreesWithStrict(n, d) == (Strict(n, d).ok /\ StrictFlags(n, d, 0, 1, <<>>).used <= n) => Fast(n, d) = Strict(n, d)
=============================================================================
