--------------------------- MODULE SimpleGlyphMC ---------------------------
(***************************************************************************)
(* The family of hostile and well-formed simple-glyph point data: n points,*)
(* up to MaxTokens flag tokens (plain flags and repeat pairs with counts   *)
(* 0, 1, 2, 255), then the coordinate bytes the lenient reading needs from *)
(* a pattern, cut short by 0..2 bytes.  One state per member; TLC checks   *)
(* the three statements of SimpleGlyph.tla and exports the member with     *)
(* both readings for replay on read_points_fast and points().              *)
(***************************************************************************)
EXTENDS SimpleGlyph

CONSTANTS MaxN, MaxTokens
VARIABLES n, d

PlainFlags == {1, 48, 55, 6, 35}            \* words on-curve; same/same; short+ on; short- off; x short+, y same, on
RepeatFlags == {9, 56, 62}                   \* words; same/same; short+ short+ (off curve)
Tokens == {<<f>> : f \in PlainFlags} \cup {<<f, c>> : f \in RepeatFlags, c \in {0, 1, 2, 255}}
RECURSIVE Flat(_)
Flat(ts) == IF ts = <<>> THEN <<>> ELSE Head(ts) \o Flat(Tail(ts))
TokenLists == UNION {[1..k -> Tokens] : k \in 1..MaxTokens}
Pattern(k) == IF k % 3 = 0 THEN 255 ELSE IF k % 3 = 1 THEN 128 ELSE 7 * k
\* bytes the lenient reading consumes after the flags: found by offering plenty
Plenty == [k \in 1..(4 * MaxN + 4) |-> Pattern(k)]
Need(nn, fb) == LET fl == FastFlags(nn, fb \o Plenty, 0, 1, <<>>) IN
                IF fl.err THEN 0
                ELSE LET x == Coords(fb \o Plenty, fl.flags, 1, fl.used + 1, <<>>, XSHORT, XSAME)
                         y == Coords(fb \o Plenty, fl.flags, 1, x.pos, <<>>, YSHORT, YSAME)
                     IN y.pos - 1 - Len(fb)
Member(nn, ts, cut) == LET fb == Flat(ts)  need == Need(nn, fb)  keep == IF need - cut < 0 THEN 0 ELSE need - cut IN
                       fb \o [k \in 1..keep |-> Pattern(k)]

Init == \E nn \in 1..MaxN, ts \in TokenLists, cut \in 0..2 : n = nn /\ d = Member(nn, ts, cut)
Next == UNCHANGED <<n, d>>
Spec == Init /\ [][Next]_<<n, d>>

RunsInsideOK == RunsInside(n, d)
TotalOK == Total(n, d)
AgreesOK == AgreesWithStrict(n, d)
CaseDump == PrintT(<<"SGCASE", ToJson([n |-> n, data |-> d, fast |-> Fast(n, d), strict |-> Strict(n, d),
                                       compact |-> StrictFlags(n, d, 0, 1, <<>>).used <= n])>>)
=============================================================================
