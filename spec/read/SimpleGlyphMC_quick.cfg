SPECIFICATION Spec
CONSTANTS
  MaxN = 4
  MaxTokens = 3
INVARIANTS RunsInsideOK TotalOK AgreesOK CaseDump
CHECK_DEADLOCK FALSE
