SPECIFICATION Spec
CONSTANTS
  MaxN = 5
  MaxTokens = 4
INVARIANTS RunsInsideOK TotalOK AgreesOK CaseDump
CHECK_DEADLOCK FALSE
