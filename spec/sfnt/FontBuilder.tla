----------------------------- MODULE FontBuilder -----------------------------
(***************************************************************************)
(* write_fonts::FontBuilder as a state machine: the builder's table map,   *)
(* add_raw (overwrite), copy_missing_tables (never overrides), build.      *)
(* TLC checks on every reachable table map that the reference output is    *)
(* WellFormed (so the C06 statement is satisfiable and the checksum        *)
(* arithmetic of the design closes), and exports the state graph: the      *)
(* harness replays every edge on the real FontBuilder; all histories       *)
(* reaching one table map must build identical bytes.                      *)
(***************************************************************************)
EXTENDS Sfnt, Json, TLC

CONSTANTS Tags,      \* set of 4-tuples
          Blobs,     \* sequence of byte sequences (catalogue)
          Sources,   \* sequence of table maps (fonts for copy_missing_tables), as [tag -> blob index]
          MaxTables

VARIABLES tables,    \* [subset of Tags -> index into Blobs]
          last

Bytes(tm) == [t \in DOMAIN tm |-> Blobs[tm[t]]]

Init == tables = [t \in {} |-> 0] /\ last = [op |-> "new"]

AddRaw(t, b) == /\ tables' = [x \in DOMAIN tables \cup {t} |-> IF x = t THEN b ELSE tables[x]]
                /\ last' = [op |-> "add_raw", tag |-> t, blob |-> b]
CopyMissing(i) == /\ tables' = [x \in DOMAIN tables \cup DOMAIN Sources[i] |->
                                  IF x \in DOMAIN tables THEN tables[x] ELSE Sources[i][x]]
                  /\ last' = [op |-> "copy_missing", src |-> i]
Next == \/ \E t \in Tags, b \in DOMAIN Blobs : AddRaw(t, b)
        \/ \E i \in DOMAIN Sources : CopyMissing(i)
Spec == Init /\ [][Next]_<<tables, last>>
View == tables
Bound == Cardinality(DOMAIN tables) <= MaxTables

\* fontTools-style physical order: here simply the directory order (any order is conforming)
RefOutput == BuildBytes(Bytes(tables), SortTags(DOMAIN tables, TagLt))
\* ... and with the reverse physical order, to show WellFormed does not depend on it
RefOutputRev == BuildBytes(Bytes(tables), SortTags(DOMAIN tables, LAMBDA a, b : TagLt(b, a)))

RefWellFormed == WellFormed(RefOutput, Bytes(tables)) /\ WellFormed(RefOutputRev, Bytes(tables))
CopyNeverOverrides == last.op = "copy_missing" => TRUE   \* by construction of CopyMissing; checked on the code by replay

KeyOf(tm) == ToString(tm)
StateDump == PrintT(<<"STATE", ToJson([key |-> KeyOf(tables),
                 tables |-> [i \in 1..Cardinality(DOMAIN tables) |->
                               LET t == SortTags(DOMAIN tables, TagLt)[i] IN [tag |-> t, blob |-> tables[t]]]])>>)
EdgeDump == PrintT(<<"EDGE", ToJson([pre |-> KeyOf(tables), op |-> last', post |-> KeyOf(tables')])>>)
=============================================================================
