---- MODULE FontBuilderMC ----
EXTENDS FontBuilder
\* head, "CFF ", DSIG, glyf, aaaa, zzzz
THead == <<104, 101, 97, 100>>
TCff  == <<67, 70, 70, 32>>
TDsig == <<68, 83, 73, 71>>
TGlyf == <<103, 108, 121, 102>>
TAaaa == <<97, 97, 97, 97>>
TZzzz == <<122, 122, 122, 122>>
MCTags == {THead, TCff, TDsig, TGlyf, TAaaa, TZzzz}
MCTagsSmall == {THead, TCff, TDsig, TAaaa}
\* lengths 0, 1, 11, 12, 13, 6 - every length mod 4, both sides of the 12-byte head rule; sums wrap
MCBlobs == << <<>>, <<255>>,
              <<255, 255, 255, 255, 128, 0, 0, 1, 1, 2, 3>>,
              <<255, 255, 255, 254, 127, 255, 255, 255, 9, 9, 9, 9>>,
              <<0, 1, 0, 0, 255, 255, 255, 255, 170, 187, 204, 221, 128>>,
              <<128, 0, 0, 0, 128, 1>> >>
MCSources == << (THead :> 4 @@ TGlyf :> 2), (TAaaa :> 1 @@ TCff :> 6 @@ TDsig :> 5) >>
====
