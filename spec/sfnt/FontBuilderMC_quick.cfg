SPECIFICATION Spec
CONSTANTS
  Tags <- MCTagsSmall
  Blobs <- MCBlobs
  Sources <- MCSources
  MaxTables = 3
VIEW View
CONSTRAINT Bound
INVARIANTS RefWellFormed StateDump
ACTION_CONSTRAINT EdgeDump
CHECK_DEADLOCK FALSE
