SPECIFICATION Spec
CONSTANTS
  Tags <- MCTags
  Blobs <- MCBlobs
  Sources <- MCSources
  MaxTables = 4
VIEW View
CONSTRAINT Bound
INVARIANTS RefWellFormed StateDump
ACTION_CONSTRAINT EdgeDump
CHECK_DEADLOCK FALSE
