-------------------------- MODULE FontBuilderTrace --------------------------
(***************************************************************************)
(* Trace validation for write_fonts::FontBuilder.  The recorded events are *)
(* the builder calls with their arguments and, for `build`, the complete   *)
(* output file; the trace specification tracks the table map and judges    *)
(* each output with Sfnt!WellFormed - parsed here, independently of        *)
(* read-fonts.  `same` on a build event says the harness found the bytes   *)
(* identical to those of every other history that reached this table map.  *)
(***************************************************************************)
EXTENDS Sfnt, TraceIO

VARIABLE tables

AsTag(q) == <<q[1], q[2], q[3], q[4]>>
SrcMap(src) == [t \in {AsTag(src[i].tag) : i \in DOMAIN src} |->
                  (CHOOSE i \in DOMAIN src : AsTag(src[i].tag) = t) ]

TInit == tables = [t \in {} |-> <<>>] /\ l = 1
TReset == IsEvent("reset") /\ tables' = [t \in {} |-> <<>>]
TAddRaw == /\ IsEvent("add_raw")
           /\ tables' = [x \in DOMAIN tables \cup {AsTag(Ev.tag)} |-> IF x = AsTag(Ev.tag) THEN Ev.data ELSE tables[x]]
TCopyMissing == /\ IsEvent("copy_missing")
                /\ LET m == SrcMap(Ev.src) IN
                   tables' = [x \in DOMAIN tables \cup DOMAIN m |->
                                 IF x \in DOMAIN tables THEN tables[x] ELSE Ev.src[m[x]].data]
TBuild == /\ IsEvent("build")
          /\ WellFormed(Ev.bytes, tables)
          /\ Ev.same
          /\ UNCHANGED tables

TNext == TReset \/ TAddRaw \/ TCopyMissing \/ TBuild
TraceSpec == TInit /\ [][TNext]_<<tables, l>>
=============================================================================
