-------------------------------- MODULE Sfnt --------------------------------
(***************************************************************************)
(* The sfnt container, written from the OpenType specification ("Font      *)
(* file", "Calculating checksums"): a parser over byte sequences, the      *)
(* checksum function and the well-formedness predicate that property C06   *)
(* states.  Independent of read-fonts / write-fonts.                       *)
(*                                                                         *)
(* Bytes are sequences over 0..255 (1-based); tags are 4-tuples of bytes,  *)
(* ordered lexicographically; tables : [set of tags -> byte sequences].    *)
(***************************************************************************)
EXTENDS Integers, Sequences, FiniteSets, U32

ByteAt(bytes, i) == IF i >= 1 /\ i <= Len(bytes) THEN bytes[i] ELSE 0      \* zero padded
U16At(bytes, off) == bytes[off + 1] * 256 + bytes[off + 2]                  \* off is 0-based
U32At(bytes, off) == FromBytes(bytes[off + 1], bytes[off + 2], bytes[off + 3], bytes[off + 4])
\* offsets and lengths in the models are < 2^31: read them as naturals
NatAt(bytes, off) == (bytes[off + 1] * 256 + bytes[off + 2]) * 65536 + bytes[off + 3] * 256 + bytes[off + 4]

Round4(n) == ((n + 3) \div 4) * 4

\* big-endian u32 word sum modulo 2^32, the last word zero padded
Checksum(bytes) ==
  LET nw == (Len(bytes) + 3) \div 4
      RECURSIVE S(_)
      S(w) == IF w = nw THEN Zero
              ELSE Add(FromBytes(ByteAt(bytes, 4*w + 1), ByteAt(bytes, 4*w + 2), ByteAt(bytes, 4*w + 3), ByteAt(bytes, 4*w + 4)),
                       S(w + 1))
  IN S(0)

TagLt(a, b) == \E k \in 1..4 : a[k] < b[k] /\ \A j \in 1..(k - 1) : a[j] = b[j]
HeadTag == <<104, 101, 97, 100>>
Magic == U(45488, 44986)          \* 0xB1B0AFBA

\* head with its checkSumAdjustment (bytes 8..12) zeroed; other tables unchanged
Zeroed(tag, data) ==
  IF tag = HeadTag /\ Len(data) >= 12
  THEN [i \in 1..Len(data) |-> IF i \in 9..12 THEN 0 ELSE data[i]]
  ELSE data

-----------------------------------------------------------------------------
(* Parsing *)
NumTables(bytes) == U16At(bytes, 4)
RecordOff(i) == 12 + 16 * (i - 1)                        \* i-th directory record, 1-based
RecTag(bytes, i)    == <<bytes[RecordOff(i) + 1], bytes[RecordOff(i) + 2], bytes[RecordOff(i) + 3], bytes[RecordOff(i) + 4]>>
RecSum(bytes, i)    == U32At(bytes, RecordOff(i) + 4)
RecOffset(bytes, i) == NatAt(bytes, RecordOff(i) + 8)
RecLength(bytes, i) == NatAt(bytes, RecordOff(i) + 12)
HeaderFits(bytes) == Len(bytes) >= 12 /\ Len(bytes) >= 12 + 16 * NumTables(bytes)
Data(bytes, i) == SubSeq(bytes, RecOffset(bytes, i) + 1, RecOffset(bytes, i) + RecLength(bytes, i))

\* the C06 statement, for an output `bytes` built from `tables`
WellFormed(bytes, tables) ==
  /\ HeaderFits(bytes)
  /\ NumTables(bytes) = Cardinality(DOMAIN tables)
  /\ LET n == NumTables(bytes) IN
     /\ {RecTag(bytes, i) : i \in 1..n} = DOMAIN tables                  \* exactly those tags
     /\ \A i \in 1..(n - 1) : TagLt(RecTag(bytes, i), RecTag(bytes, i + 1)) \* ascending
     /\ \A i \in 1..n :
          LET t == RecTag(bytes, i) off == RecOffset(bytes, i) len == RecLength(bytes, i) IN
          /\ off % 4 = 0                                                  \* aligned
          /\ off >= 12 + 16 * n
          /\ off + Round4(len) <= Len(bytes)                              \* data and padding inside the file
          /\ len = Len(tables[t])
          /\ Zeroed(t, Data(bytes, i)) = Zeroed(t, tables[t])             \* the bytes supplied (head adj. excepted)
          /\ \A k \in (off + len + 1)..(off + Round4(len)) : bytes[k] = 0 \* zero padded
          /\ RecSum(bytes, i) = Checksum(Zeroed(t, Data(bytes, i)))       \* directory checksum
     /\ (HeadTag \in DOMAIN tables /\ Len(tables[HeadTag]) >= 12) => Checksum(bytes) = Magic
     \* the binary-search fields of the header are functions of the table count (OpenType "Table Directory")
     /\ n > 0 => LET es == CHOOSE e \in 0..16 : 2^e <= n /\ n < 2^(e + 1) IN
                  /\ bytes[7] * 256 + bytes[8] = 16 * (2^es)                    \* searchRange
                  /\ bytes[9] * 256 + bytes[10] = es                            \* entrySelector
                  /\ bytes[11] * 256 + bytes[12] = 16 * n - 16 * (2^es)         \* rangeShift

-----------------------------------------------------------------------------
(* Reference builder: one executable definition of a conforming output.    *)
(* Physical table order = fontTools' sortedTagList (the order the          *)
(* documentation of FontBuilder::ordered_tags promises); it is NOT part of *)
(* WellFormed.                                                             *)
Tg(s) == s      \* tags are given as 4-tuples by the configuration

SortTags(S, lt(_, _)) ==
  LET RECURSIVE F(_)
      F(T) == IF T = {} THEN <<>> ELSE LET m == CHOOSE x \in T : \A y \in T \ {x} : lt(x, y) IN <<m>> \o F(T \ {m})
  IN F(S)

Log2Floor(n) == CHOOSE e \in 0..16 : 2^e <= n /\ n < 2^(e + 1)

RECURSIVE Concat(_)
Concat(ss) == IF ss = <<>> THEN <<>> ELSE Head(ss) \o Concat(Tail(ss))

Pad(data) == data \o [k \in 1..(Round4(Len(data)) - Len(data)) |-> 0]

BuildBytes(tables, physOrder) ==
  LET tags == DOMAIN tables
      n == Cardinality(tags)
      dir == SortTags(tags, TagLt)
      hdrLen == 12 + 16 * n
      \* offsets by physical order
      RECURSIVE OffOf(_, _)
      OffOf(k, acc) == IF k = 1 THEN acc ELSE OffOf(k - 1, acc + Round4(Len(tables[physOrder[k - 1]])))
      PhysIdx(t) == CHOOSE k \in 1..n : physOrder[k] = t
      Off(t) == OffOf(PhysIdx(t), hdrLen)
      Sum(t) == Checksum(Zeroed(t, tables[t]))
      es == IF n = 0 THEN 0 ELSE Log2Floor(n)
      sr == IF n = 0 THEN 0 ELSE 16 * (2^es)
      header == <<0, 1, 0, 0, n \div 256, n % 256, sr \div 256, sr % 256, es \div 256, es % 256,
                  (n * 16 - sr) \div 256, (n * 16 - sr) % 256>>
      Rec(t) == <<t[1], t[2], t[3], t[4]>> \o ToBytes(Sum(t)) \o ToBytes(FromNat(Off(t))) \o ToBytes(FromNat(Len(tables[t])))
      directory == header \o Concat([i \in 1..n |-> Rec(dir[i])])
      RECURSIVE Total(_)
      Total(k) == IF k = 0 THEN Checksum(directory) ELSE Add(Sum(physOrder[k]), Total(k - 1))
      adj == Sub(Magic, Total(n))
      Body(t) == IF t = HeadTag /\ Len(tables[t]) >= 12
                 THEN Pad(SubSeq(tables[t], 1, 8) \o ToBytes(adj) \o SubSeq(tables[t], 13, Len(tables[t])))
                 ELSE Pad(tables[t])
  IN directory \o Concat([k \in 1..n |-> Body(physOrder[k])])
=============================================================================
