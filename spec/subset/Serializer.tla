----------------------------- MODULE Serializer -----------------------------
(***************************************************************************)
(* klippa's object serializer (klippa/src/serialize.rs, a port of the      *)
(* HarfBuzz serializer): tables are built as a root object and sub-objects *)
(* that are finished ("packed") before the objects that point to them;     *)
(* packed objects go to the end of the buffer, so the output is the root   *)
(* followed by the packed objects in reverse order of packing.  A link is  *)
(* an offset field of 2, 3 or 4 bytes inside an object that is filled in,  *)
(* when serialization ends, with the distance to the target object         *)
(* (from the head or the tail of the pointing object, or from the start of *)
(* the output), minus a bias.  Packing with `share` returns an identical   *)
(* object packed (with share) earlier instead of adding a copy.            *)
(*                                                                         *)
(* One action per public call: Push, Embed, AddLink, PopPack, End.  An     *)
(* object's payload is abstracted to a length and a fill byte (link fields *)
(* are part of the payload until they are resolved).  TLC explores every   *)
(* call sequence within the bounds, checks the invariants of the packing   *)
(* discipline and exports each finished sequence with the expected output  *)
(* (object positions, link values, error) for replay on the real           *)
(* Serializer.                                                             *)
(***************************************************************************)
EXTENDS Integers, Sequences, FiniteSets, Json, TLC

CONSTANTS Lens,        \* payload chunk lengths for Embed
          Fills,       \* fill bytes
          Biases,      \* link biases
          MaxObjs,     \* objects packed at most (besides the root)
          MaxDepth,    \* open objects at most (root included)
          MaxLinks,    \* links per object at most
          MaxOps       \* calls per sequence at most

VARIABLES open,        \* stack of objects under construction: [len, fill, links]; open[1] is the root
          packed,      \* packed objects in packing order: [len, fill, links, shared]
          err,         \* "" or the error a call left behind
          hist,        \* the calls so far (for replay)
          done

Obj0 == [len |-> 0, fill |-> 0, links |-> <<>>]
Link(pos, width, to, whence, bias) == [pos |-> pos, width |-> width, to |-> to, whence |-> whence, bias |-> bias]
Top == open[Len(open)]
SetTop(o) == [open EXCEPT ![Len(open)] = o]
Op(name, args) == [op |-> name] @@ args

Init == open = <<Obj0>> /\ packed = <<>> /\ err = "" /\ hist = <<>> /\ done = FALSE     \* after start_serialize

Push ==
  /\ Len(open) < MaxDepth
  /\ open' = Append(open, Obj0) /\ hist' = Append(hist, [op |-> "push"]) /\ UNCHANGED <<packed, err>>
Embed(n, f) ==
  /\ Top.len = 0 \/ Top.fill = f                                   \* one fill per object
  /\ Top.len + n <= 70010
  /\ open' = SetTop([Top EXCEPT !.len = @ + n, !.fill = f])
  /\ hist' = Append(hist, [op |-> "embed", n |-> n, fill |-> f]) /\ UNCHANGED <<packed, err>>
\* a link field lies inside what the object holds so far; the target is an object that is already packed (the serializer's
\* contract; a link to an index that does not exist yet is resolved against whatever object gets it later and may make the
\* unsigned distance computation wrap - not explored)
AddLink(pos, width, to, whence, bias) ==
  /\ Len(Top.links) < MaxLinks
  /\ pos + width <= Top.len
  /\ \A k \in DOMAIN Top.links : Top.links[k].pos + Top.links[k].width <= pos \/ pos + width <= Top.links[k].pos     \* fields do not overlap
  /\ open' = SetTop([Top EXCEPT !.links = Append(@, Link(pos, width, to, whence, bias))])
  /\ hist' = Append(hist, [op |-> "link", pos |-> pos, width |-> width, to |-> to, whence |-> whence, bias |-> bias])
  /\ UNCHANGED <<packed, err>>
Same(a, b) == a.len = b.len /\ a.fill = b.fill /\ a.links = b.links
\* finishing the innermost sub-object: nothing for an empty one (an error if it has links), an earlier identical shared
\* object when sharing, a new packed object otherwise
PopPack(share) ==
  /\ Len(open) >= 2
  /\ LET o == Top
         dup == {k \in DOMAIN packed : packed[k].shared /\ Same(packed[k], o)}
     IN /\ open' = SubSeq(open, 1, Len(open) - 1)
        /\ IF o.len = 0 THEN /\ packed' = packed
                             /\ err' = IF o.links # <<>> THEN "other" ELSE err
                             /\ hist' = Append(hist, [op |-> "pop", share |-> share, ret |-> -1])
           ELSE IF share /\ dup # {} THEN
                /\ packed' = packed /\ err' = err
                /\ hist' = Append(hist, [op |-> "pop", share |-> share, ret |-> (CHOOSE k \in dup : TRUE) - 1])
           ELSE /\ Len(packed) < MaxObjs
                /\ packed' = Append(packed, [len |-> o.len, fill |-> o.fill, links |-> o.links, shared |-> share])
                /\ err' = err
                /\ hist' = Append(hist, [op |-> "pop", share |-> share, ret |-> Len(packed)])

\* ---- the layout that end_serialize produces -----------------------------------------------------------
\* all objects, the root last (it is packed by end_serialize, unless nothing else was packed)
All == IF packed = <<>> THEN <<>> ELSE Append(packed, [len |-> open[1].len, fill |-> open[1].fill, links |-> open[1].links, shared |-> FALSE])
RECURSIVE SumLen(_, _)
SumLen(objs, k) == IF k = 0 THEN 0 ELSE objs[k].len + SumLen(objs, k - 1)
Total == IF packed = <<>> THEN open[1].len ELSE SumLen(All, Len(All))
Pos(k) == Total - SumLen(All, k)                        \* object k (1-based, packing order) starts here in the output
MaxOf(width) == IF width = 2 THEN 65535 ELSE IF width = 3 THEN 16777215 ELSE 2147483647      \* (32-bit: never reached here)
\* value of link l of object k, or an error name
LinkValue(k, l) ==
  IF l.to + 1 > Len(All) THEN [e |-> "other", v |-> 0]
  ELSE LET raw == CASE l.whence = "head" -> Pos(l.to + 1) - Pos(k)
                    [] l.whence = "tail" -> Pos(l.to + 1) - (Pos(k) + All[k].len)
                    [] OTHER -> Pos(l.to + 1)
       IN IF raw < l.bias THEN [e |-> "other", v |-> 0]
          ELSE IF raw - l.bias > MaxOf(l.width) THEN [e |-> "overflow", v |-> 0]
          ELSE [e |-> "", v |-> raw - l.bias]
\* the distances of all links are computed (and checked against their bias) before any is stored (and checked against its
\* width): a bias error anywhere wins over an overflow
FirstError ==
  IF err # "" THEN err
  ELSE LET LinkErrs == UNION {{LinkValue(k, All[k].links[i]).e : i \in DOMAIN All[k].links} : k \in DOMAIN All} \ {""}
       IN IF "other" \in LinkErrs THEN "other" ELSE IF "overflow" \in LinkErrs THEN "overflow" ELSE ""
Expected ==
  [error |-> FirstError, total |-> Total,
   objects |-> [k \in DOMAIN All |-> [pos |-> Pos(k), len |-> All[k].len, fill |-> All[k].fill,
                                       links |-> [i \in DOMAIN All[k].links |-> [pos |-> All[k].links[i].pos, width |-> All[k].links[i].width,
                                                                                   to |-> All[k].links[i].to, whence |-> All[k].links[i].whence,
                                                                                   bias |-> All[k].links[i].bias,
                                                                                   value |-> LinkValue(k, All[k].links[i]).v]]]]]

End ==
  /\ Len(open) = 1
  /\ done' = TRUE /\ hist' = Append(hist, [op |-> "end"]) /\ UNCHANGED <<open, packed, err>>

Next ==
  /\ ~done /\ Len(hist) < MaxOps /\ err = ""
  /\ \/ Push
     \/ \E n \in Lens, f \in Fills : Embed(n, f)
     \/ \E pos \in {0, 2, 4}, width \in {2, 3, 4}, to \in 0..(Len(packed) - 1), wh \in {"head", "tail", "abs"}, b \in Biases : AddLink(pos, width, to, wh, b)
     \/ \E s \in BOOLEAN : PopPack(s)
  /\ UNCHANGED done
Finish == ~done /\ End
Spec == Init /\ [][Next \/ Finish]_<<open, packed, err, hist, done>>

\* ---- invariants of the packing discipline ---------------------------------------------------------------
TypeOK == Len(open) >= 1 /\ Len(open) <= MaxDepth /\ Len(packed) <= MaxObjs
\* a link can only name an object packed before the pointing object is finished: targets precede their parents in
\* packing order, so every resolvable offset is forward in the output
LinksPointBack == \A k \in DOMAIN packed : \A i \in DOMAIN packed[k].links : packed[k].links[i].to <= Len(packed)
\* sharing never keeps two identical shared objects
NoSharedTwins == \A a, b \in DOMAIN packed : (a # b /\ packed[a].shared /\ packed[b].shared) => ~Same(packed[a], packed[b])
\* in a successful layout every link value leads from its base to the start of its target
\* (for links that name an object packed before their own; an index that did not exist yet when the link was added is
\* resolved against whatever object gets it later - modelled as the code does it, but outside this claim)
Sound == (done /\ FirstError = "") =>
           \A k \in DOMAIN All : \A i \in {j \in DOMAIN All[k].links : All[k].links[j].to + 1 < k} :
              LET l == All[k].links[i]  v == LinkValue(k, l).v + l.bias
                  base == CASE l.whence = "head" -> Pos(k) [] l.whence = "tail" -> Pos(k) + All[k].len [] OTHER -> 0
              IN base + v = Pos(l.to + 1) /\ Pos(l.to + 1) >= Pos(k) + All[k].len
View == <<open, packed, err, done>>
CaseDump == done => PrintT(<<"SERCASE", ToJson([ops |-> hist, expected |-> Expected])>>)
=============================================================================
