SPECIFICATION Spec
CONSTANTS
  Lens = {2, 4}
  Fills = {7}
  Biases = {0, 1}
  MaxObjs = 2
  MaxDepth = 3
  MaxLinks = 1
  MaxOps = 9
VIEW View
INVARIANTS TypeOK LinksPointBack NoSharedTwins Sound CaseDump
CHECK_DEADLOCK FALSE
