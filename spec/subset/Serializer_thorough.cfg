SPECIFICATION Spec
CONSTANTS
  Lens = {2, 4, 70000}
  Fills = {7, 9}
  Biases = {0, 3}
  MaxObjs = 3
  MaxDepth = 3
  MaxLinks = 1
  MaxOps = 9
VIEW View
INVARIANTS TypeOK LinksPointBack NoSharedTwins Sound CaseDump
CHECK_DEADLOCK FALSE
