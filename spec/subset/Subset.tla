------------------------------- MODULE Subset -------------------------------
(***************************************************************************)
(* The glyph-level design of the klippa subsetter (klippa/src/lib.rs Plan, *)
(* glyf_loca.rs, hmtx.rs, cmap.rs), one action per planning / table step:  *)
(*                                                                         *)
(*   PopulateUnicodes  code points kept: requested, or mapped to a         *)
(*                     requested glyph;  seeds = .notdef + requested glyph *)
(*                     ids inside the font + images of the kept chars      *)
(*   ClosureStep       one composite glyph expanded (glyf_closure_glyphs)  *)
(*   Renumber          create_old_gid_to_new_gid_map: dense order-         *)
(*                     preserving ids, or identity when ids are retained   *)
(*   SubsetGlyf        glyph records copied, component ids rewritten,      *)
(*                     .notdef emptied unless its outline is to be kept    *)
(*   SubsetHmtx        long metrics trimmed while the trailing advances    *)
(*                     repeat (compute_new_num_h_metrics); gaps advance 0  *)
(*   SubsetCmap        kept code points -> new ids                         *)
(*                                                                         *)
(* An abstract font is [n, comps, cmap, adv]: glyph ids 0..n-1, comps[g]   *)
(* the set of component glyph ids of g ({} for simple glyphs), cmap a      *)
(* function from code points to glyph ids, adv[g] the advance.             *)
(* The properties (C17) are stated on the finished subset.                 *)
(***************************************************************************)
EXTENDS Integers, Sequences, FiniteSets

CONSTANTS Fonts,        \* set of abstract fonts to explore
          GidUniverse,  \* glyph ids a request may name (may exceed the font)
          CpUniverse    \* code points a request may name (may be unmapped)

VARIABLES pc, font, req, unicodes, gset, work, map, outN, outGlyf, outAdv, outNumLong, outCmap, done

vars == <<pc, font, req, unicodes, gset, work, map, outN, outGlyf, outAdv, outNumLong, outCmap, done>>

Gids(f) == 0..(f.n - 1)
Requests == [gids : SUBSET GidUniverse, cps : SUBSET CpUniverse, retain : BOOLEAN, notdef : BOOLEAN]

\* ---- what the subset must contain, independent of how it is computed ------------------------
RECURSIVE ReachFrom(_, _, _)
ReachFrom(f, S, k) == IF k = 0 THEN S ELSE ReachFrom(f, S \cup UNION {f.comps[g] : g \in S}, k - 1)
Seeds(f, r) == {0} \cup (r.gids \cap Gids(f)) \cup {f.cmap[cp] : cp \in (r.cps \cap DOMAIN f.cmap)}
MustKeep(f, r) == ReachFrom(f, Seeds(f, r), f.n)
\* leaves (simple glyph ids) a glyph flattens to
Flatten(f, g) == {h \in ReachFrom(f, {g}, f.n) : f.comps[h] = {}}

NoMap == [g \in {} |-> 0]
Init ==
  /\ pc = "start" /\ font \in Fonts /\ req \in Requests
  /\ unicodes = {} /\ gset = {} /\ work = {} /\ map = NoMap /\ outN = 0
  /\ outGlyf = <<>> /\ outAdv = <<>> /\ outNumLong = 0 /\ outCmap = NoMap /\ done = {}

PopulateUnicodes ==
  /\ pc = "start"
  /\ LET us == {cp \in DOMAIN font.cmap : cp \in req.cps \/ font.cmap[cp] \in req.gids}
         seeds == {0} \cup (req.gids \cap Gids(font)) \cup {font.cmap[cp] : cp \in us}
     IN unicodes' = us /\ gset' = seeds /\ work' = seeds
  /\ pc' = "closure"
  /\ UNCHANGED <<font, req, map, outN, outGlyf, outAdv, outNumLong, outCmap, done>>

\* one glyph of the work list is expanded (the implementation recurses; the order does not matter for a fixed point,
\* the model takes the smallest id)
ClosureStep ==
  /\ pc = "closure" /\ work # {}
  /\ LET g == CHOOSE x \in work : \A y \in work : x <= y
         new == (font.comps[g] \cap Gids(font)) \ gset
     IN work' = (work \ {g}) \cup new /\ gset' = gset \cup new
  /\ UNCHANGED <<pc, font, req, unicodes, map, outN, outGlyf, outAdv, outNumLong, outCmap, done>>

Rank(S, g) == Cardinality({h \in S : h < g})
Max(S) == CHOOSE x \in S : \A y \in S : y <= x
Renumber ==
  /\ pc = "closure" /\ work = {}
  /\ map' = [g \in gset |-> IF req.retain THEN g ELSE Rank(gset, g)]          \* old -> new
  /\ outN' = IF req.retain THEN Max(gset) + 1 ELSE Cardinality(gset)
  /\ pc' = "tables"
  /\ UNCHANGED <<font, req, unicodes, gset, work, outGlyf, outAdv, outNumLong, outCmap, done>>

News == {map[g] : g \in DOMAIN map}
Old(ng) == CHOOSE g \in DOMAIN map : map[g] = ng
EmptyGlyph == [shape |-> -1, comps |-> {}]           \* shape -1: no outline

SubsetGlyf ==
  /\ pc = "tables" /\ "glyf" \notin done
  /\ outGlyf' = [i \in 1..outN |->
        LET ng == i - 1 IN
        IF ng \notin News THEN EmptyGlyph
        ELSE IF ng = 0 /\ ~req.notdef THEN EmptyGlyph
        ELSE [shape |-> IF font.comps[Old(ng)] = {} THEN Old(ng) ELSE -2,            \* -2: composite
              comps |-> {map[c] : c \in (font.comps[Old(ng)] \cap DOMAIN map)}]]
  /\ done' = done \cup {"glyf"}
  /\ UNCHANGED <<pc, font, req, unicodes, gset, work, map, outN, outAdv, outNumLong, outCmap>>

NewAdv(ng) == IF ng \in News THEN font.adv[Old(ng)] ELSE 0
RECURSIVE Trim(_)
Trim(k) == IF k > 1 /\ NewAdv(k - 2) = NewAdv(outN - 1) THEN Trim(k - 1) ELSE k
SubsetHmtx ==
  /\ pc = "tables" /\ "hmtx" \notin done
  /\ LET nl == Trim(outN) IN
     /\ outNumLong' = nl
     \* glyphs past the long metrics share the last long advance (what a reader sees)
     /\ outAdv' = [i \in 1..outN |-> IF i - 1 < nl THEN NewAdv(i - 1) ELSE NewAdv(nl - 1)]
  /\ done' = done \cup {"hmtx"}
  /\ UNCHANGED <<pc, font, req, unicodes, gset, work, map, outN, outGlyf, outCmap>>

SubsetCmap ==
  /\ pc = "tables" /\ "cmap" \notin done
  /\ outCmap' = [cp \in unicodes |-> map[font.cmap[cp]]]
  /\ done' = done \cup {"cmap"}
  /\ UNCHANGED <<pc, font, req, unicodes, gset, work, map, outN, outGlyf, outAdv, outNumLong>>

Finish ==
  /\ pc = "tables" /\ done = {"glyf", "hmtx", "cmap"}
  /\ pc' = "done"
  /\ UNCHANGED <<font, req, unicodes, gset, work, map, outN, outGlyf, outAdv, outNumLong, outCmap, done>>

Next == PopulateUnicodes \/ ClosureStep \/ Renumber \/ SubsetGlyf \/ SubsetHmtx \/ SubsetCmap \/ Finish
Spec == Init /\ [][Next]_vars

\* ---- the property, on the finished subset ------------------------------------------------------
AtEnd == pc = "done"
\* the subset as an abstract font again (for Flatten)
OutFont == [n |-> outN, comps |-> [ng \in 0..(outN - 1) |-> outGlyf[ng + 1].comps]]
OutShapes(ng) == {outGlyf[h + 1].shape : h \in Flatten(OutFont, ng)}

ContainsClosure == AtEnd => MustKeep(font, req) \subseteq DOMAIN map
NothingInvented == AtEnd => DOMAIN map \subseteq Gids(font)
IdsRetained     == (AtEnd /\ req.retain) => \A g \in DOMAIN map : map[g] = g
Injective       == AtEnd => \A g, h \in DOMAIN map : map[g] = map[h] => g = h
RequestedCharsMapped ==
  AtEnd => \A cp \in req.cps \cap DOMAIN font.cmap : cp \in DOMAIN outCmap /\ outCmap[cp] = map[font.cmap[cp]]
NoUnrequestedChars ==
  AtEnd => \A cp \in DOMAIN outCmap : cp \in DOMAIN font.cmap /\ (cp \in req.cps \/ font.cmap[cp] \in req.gids)
                                       /\ outCmap[cp] = map[font.cmap[cp]]
\* every kept glyph draws the same simple shapes (component references still resolve inside the subset) ...
OutlinesPreserved ==
  AtEnd => \A g \in DOMAIN map :
             (map[g] = 0 /\ ~req.notdef) \/ (OutShapes(map[g]) = Flatten(font, g))
\* ... and has the same advance, whatever the long-metric trimming did
AdvancesPreserved == AtEnd => \A g \in DOMAIN map : outAdv[map[g] + 1] = font.adv[g]
GapsEmpty == AtEnd => \A ng \in 0..(outN - 1) : ng \notin News => outGlyf[ng + 1] = EmptyGlyph
=============================================================================
