----------------------------- MODULE SubsetFonts -----------------------------
(* The abstract fonts of the bounded subsetting model (built as real TrueType fonts by harness/fv-subset). *)
EXTENDS Integers

\* glyph 0 .notdef, 1 2 5 simple, 3 = composite(1, 2), 4 = composite(3) (nested)
CompsA == [g \in 0..5 |-> CASE g = 3 -> {1, 2} [] g = 4 -> {3} [] OTHER -> {}]
\* 2 = composite(5) forward reference, 4 = composite(1, 2)
CompsB == [g \in 0..5 |-> CASE g = 2 -> {5} [] g = 4 -> {1, 2} [] OTHER -> {}]
CmapA == [cp \in {97, 98, 99, 100, 128512} |-> CASE cp = 97 -> 1 [] cp = 98 -> 2 [] cp = 99 -> 3 [] cp = 100 -> 1 [] OTHER -> 5]
AdvDistinct == [g \in 0..5 |-> 500 + 10 * g]
AdvTail == [g \in 0..5 |-> IF g >= 3 THEN 700 ELSE 500 + 10 * g]     \* trailing advances repeat
AdvZeroTail == [g \in 0..5 |-> IF g >= 4 THEN 0 ELSE 600]            \* ... and equal the advance of a gap
F(id, c, a) == [id |-> id, n |-> 6, comps |-> c, cmap |-> CmapA, adv |-> a]
FontsQuick == {F(1, CompsA, AdvDistinct), F(2, CompsB, AdvTail)}
FontsAll == {F(1, CompsA, AdvDistinct), F(2, CompsB, AdvTail), F(3, CompsA, AdvZeroTail), F(4, CompsB, AdvDistinct), F(5, CompsA, AdvTail)}
GidsQuick == {1, 3, 4, 5, 7}
GidsAll == {1, 2, 3, 4, 5, 7}
CpsQuick == {97, 99, 128512, 101}
CpsAll == {97, 98, 99, 100, 128512, 101}

=============================================================================
