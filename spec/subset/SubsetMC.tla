------------------------------ MODULE SubsetMC ------------------------------
(* Bounded instances of Subset.tla and the export of every (font, request) with the model's answer. *)
EXTENDS Subset, SubsetFonts, TLC, Json

SetSeq(S) == LET RECURSIVE R(_) R(T) == IF T = {} THEN <<>> ELSE LET m == CHOOSE x \in T : \A y \in T : x <= y IN <<m>> \o R(T \ {m}) IN R(S)
Dump == AtEnd =>
  PrintT(<<"CASE", ToJson([font |-> font.id, gids |-> SetSeq(req.gids), cps |-> SetSeq(req.cps), retain |-> req.retain, notdef |-> req.notdef,
                           keep |-> SetSeq(DOMAIN map), out_n |-> outN, num_long |-> outNumLong,
                           cmap |-> [i \in 1..Cardinality(unicodes) |-> <<SetSeq(unicodes)[i], outCmap[SetSeq(unicodes)[i]]>>]])>>)
=============================================================================
