SPECIFICATION Spec
CONSTANTS
  Fonts <- FontsQuick
  GidUniverse <- GidsQuick
  CpUniverse <- CpsQuick
INVARIANTS ContainsClosure NothingInvented IdsRetained Injective RequestedCharsMapped NoUnrequestedChars OutlinesPreserved AdvancesPreserved GapsEmpty Dump
CHECK_DEADLOCK FALSE
