SPECIFICATION Spec
CONSTANTS
  Fonts <- FontsAll
  GidUniverse <- GidsAll
  CpUniverse <- CpsAll
INVARIANTS ContainsClosure NothingInvented IdsRetained Injective RequestedCharsMapped NoUnrequestedChars OutlinesPreserved AdvancesPreserved GapsEmpty Dump
CHECK_DEADLOCK FALSE
