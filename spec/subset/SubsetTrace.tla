----------------------------- MODULE SubsetTrace -----------------------------
(***************************************************************************)
(* Trace validation for klippa::subset_font, observed through the reopened *)
(* subset (skrifa charmap / outlines / metrics) and hook H6 (the plan's    *)
(* renumbering).                                                           *)
(*   font       abstract projection of a model font as the harness sees    *)
(*              the real font it built: must be the font of SubsetMC.tla   *)
(*   subset     one subsetting run: request, renumbering [new, old],       *)
(*              component lists of the kept glyphs, original and subset    *)
(*              character maps, per-glyph comparison summary               *)
(*   resubset   the property judged again with the subset as the original  *)
(*   everything subsetting to all glyphs and characters                    *)
(* Events the harness has already reported as violations are `flagged` and *)
(* not judged twice.                                                       *)
(***************************************************************************)
EXTENDS SubsetFonts, FiniteSets, TraceIO

AsSet(q) == {q[i] : i \in DOMAIN q}

TFont ==
  /\ IsEvent("font")
  /\ \E f \in FontsAll :
       /\ f.id = Ev.id /\ f.n = Ev.n
       /\ \A g \in 0..(f.n - 1) : AsSet(Ev.comps[g + 1]) = f.comps[g] /\ Ev.adv[g + 1] = f.adv[g]
       /\ {<<Ev.cmap[i][1], Ev.cmap[i][2]>> : i \in DOMAIN Ev.cmap} = {<<cp, f.cmap[cp]>> : cp \in DOMAIN f.cmap}

Judge(e) ==
  LET kept == {e.map[i][2] : i \in DOMAIN e.map}
      news == {e.map[i][1] : i \in DOMAIN e.map}
      pairs == {<<e.map[i][1], e.map[i][2]>> : i \in DOMAIN e.map}
      gids == AsSet(e.gids)
      cps == AsSet(e.cps)
  IN
  /\ e.ok
  \* the glyph set: .notdef, the requested glyphs inside the font, the glyphs of requested characters, all components
  /\ 0 \in kept
  /\ \A g \in gids : g < e.n => g \in kept
  /\ \A i \in DOMAIN e.req_cmap : e.req_cmap[i][2] \in kept
  /\ \A i \in DOMAIN e.kept_comps : \A c \in AsSet(e.kept_comps[i][2]) : c < e.n => c \in kept
  /\ kept \subseteq 0..(e.n - 1)
  \* the renumbering: injective, inside the subset, .notdef stays, identity when ids are retained
  /\ Cardinality(kept) = Len(e.map) /\ Cardinality(news) = Len(e.map)
  /\ <<0, 0>> \in pairs
  /\ \A ng \in news : ng < e.out_n
  /\ e.retain => \A p \in pairs : p[1] = p[2]
  /\ (~e.retain) => e.out_n = Len(e.map)
  /\ e.retain => e.out_n = (CHOOSE m \in kept : \A k \in kept : k <= m) + 1
  /\ e.plan_n = e.out_n
  \* characters: every requested mapped character maps to the image of its glyph; nothing else is mapped
  /\ \A i \in DOMAIN e.req_cmap :
        \E j \in DOMAIN e.out_cmap : e.out_cmap[j][1] = e.req_cmap[i][1] /\ e.out_cmap[j][3] = e.req_cmap[i][2]
  /\ \A j \in DOMAIN e.out_cmap :
        /\ e.out_cmap[j][3] >= 0
        /\ (e.out_cmap[j][1] \in cps \/ e.out_cmap[j][3] \in gids)
        /\ <<e.out_cmap[j][2], e.out_cmap[j][3]>> \in pairs
  \* every kept glyph compared (outline, advance, side bearing at every probe) and found equal; gaps are empty
  /\ e.checked = Len(e.map) /\ e.bad = 0
  /\ Len(e.gaps_bad) = 0

\* subsets too large for an event: the same clauses evaluated by the harness
JudgeBig(e) ==
  /\ e.ok /\ Len(e.closure_bad) = 0 /\ Len(e.cmap_bad) = 0
  /\ e.checked = e.nmap /\ e.bad = 0 /\ Len(e.gaps_bad) = 0
  /\ e.plan_n = e.out_n
  /\ (~e.retain) => e.out_n = e.nmap

TSubset ==
  /\ IsEvent("subset")
  /\ \/ Ev.flagged
     \/ (~Ev.big /\ Judge(Ev))
     \/ (Ev.big /\ JudgeBig(Ev))
TResubset == IsEvent("resubset") /\ (Ev.same \/ Ev.flagged)
TEverything == IsEvent("everything") /\ (Ev.same \/ Ev.flagged)

TInit == l = 1
\* a call sequence of Serializer.tla replayed on klippa's serializer: the recorder compares layout, sharing and error with
\* the specification's expectation and reports a value (conforming bytes) or an error the specification also has
TSerializer == IsEvent("serializer") /\ Ev.outcome \in {"value", "error"}
TraceSpec == TInit /\ [][TFont \/ TSubset \/ TResubset \/ TEverything \/ TSerializer]_l
=============================================================================
