------------------------------ MODULE Composite ------------------------------
(***************************************************************************)
(* Loading a TrueType composite glyph (skrifa/src/outline/glyf/mod.rs      *)
(* Outlines::outline_rec): a depth-first walk over the font-controlled     *)
(* component graph with an explicit stack, guarded by the nesting limit    *)
(* and by a budget on the total number of component visits.                *)
(* graph[g] = sequence of component glyph ids of glyph g (<<>>: a simple   *)
(* glyph, which contributes one contour; <<-1>>: an empty glyph).  An id    *)
(* outside the graph is outside the font: reading it is an error.          *)
(* Checked: the stack never exceeds the limit, the number of visits never  *)
(* exceeds the budget (so the work is bounded whatever the graph: cycles,  *)
(* diamonds), every walk halts; the outcome and the number of contours     *)
(* drawn are exported for replay on the real loader.                       *)
(***************************************************************************)
EXTENDS Integers, Sequences, FiniteSets

CONSTANTS Graphs, DepthLimit, Budget,
          PointsPerLeaf      \* points of every simple glyph (the loaded outline is limited to 65535 points in total)
VARIABLES graph, stack, budget, leaves, steps, status
vars == <<graph, stack, budget, leaves, steps, status>>

Init == /\ graph \in Graphs /\ stack = <<[g |-> 0, i |-> 1]>> /\ budget = Budget /\ leaves = 0 /\ steps = 0 /\ status = "run"

Known(c) == c \in DOMAIN graph
Step ==
  /\ status = "run" /\ steps' = steps + 1 /\ UNCHANGED graph
  /\ IF stack = <<>> THEN status' = (IF leaves * PointsPerLeaf > 65535 THEN "TooManyPoints" ELSE "ok") /\ UNCHANGED <<stack, budget, leaves>>
     ELSE LET top == stack[Len(stack)]  comps == graph[top.g]  rest == SubSeq(stack, 1, Len(stack) - 1) IN
          IF comps = <<>> THEN leaves' = leaves + 1 /\ stack' = rest /\ UNCHANGED <<budget, status>>
          ELSE IF comps = <<-1>> THEN stack' = rest /\ UNCHANGED <<budget, leaves, status>>   \* (only as the top glyph)
          ELSE IF top.i > Len(comps) THEN stack' = rest /\ UNCHANGED <<budget, leaves, status>>
          ELSE IF budget = 0 THEN status' = "RecursionLimitExceeded" /\ UNCHANGED <<stack, budget, leaves>>
          ELSE LET c == comps[top.i]  advanced == Append(rest, [top EXCEPT !.i = top.i + 1]) IN
               /\ budget' = budget - 1 /\ UNCHANGED leaves
               /\ IF ~Known(c) THEN status' = "InvalidComponent" /\ stack' = stack            \* glyph id outside the font
                  ELSE IF graph[c] = <<-1>> THEN stack' = advanced /\ UNCHANGED status         \* empty glyph: nothing to load
                  ELSE IF Len(stack) > DepthLimit THEN status' = "RecursionLimitExceeded" /\ stack' = stack
                  ELSE stack' = Append(advanced, [g |-> c, i |-> 1]) /\ UNCHANGED status
Spec == Init /\ [][Step]_vars /\ WF_vars(Step)

StackBounded == Len(stack) <= DepthLimit + 1
WorkBounded == steps <= 3 * Budget + 4 /\ budget >= 0
Halts == <>(status # "run")
=============================================================================
