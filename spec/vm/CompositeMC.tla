----------------------------- MODULE CompositeMC -----------------------------
EXTENDS Composite, TLC, Json
\* all graphs on glyphs 0..2 whose component lists come from a small catalogue (cycles, self references, diamonds, absent ids)
Lists == {<<>>, <<-1>>, <<1>>, <<2>>, <<1, 1>>, <<1, 2>>, <<2, 2>>, <<0>>, <<2, 0>>, <<7>>, <<1, 7, 2>>}
Small == [0..2 -> Lists]
Chain(n) == [g \in 0..n |-> IF g = n THEN <<>> ELSE <<g + 1>>]
Diamond(n) == [g \in 0..n |-> IF g = n THEN <<>> ELSE <<g + 1, g + 1>>]
EmptyDiamond(n) == [g \in 0..n |-> IF g = n THEN <<-1>> ELSE <<g + 1, g + 1>>]    \* the last level is an empty glyph
\* scaled limits: every small graph, the theorem
\* real limits: small graphs plus families stretched to the real limits (nesting 32, 65535 visits)
Stretched == {Chain(n) : n \in {31, 32, 33, 34}} \cup {Diamond(n) : n \in {3, 14, 15, 16}} \cup {EmptyDiamond(n) : n \in {15, 16, 31}}
Dump == (status # "run") => PrintT(<<"GRAPH", ToJson([graph |-> [i \in 1..Cardinality(DOMAIN graph) |-> graph[i - 1]], outcome |-> status, leaves |-> leaves])>>)
=============================================================================
