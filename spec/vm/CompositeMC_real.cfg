SPECIFICATION Spec
CONSTANTS
  Graphs <- Small
  DepthLimit = 32
  PointsPerLeaf = 3
  Budget = 65535
INVARIANTS StackBounded WorkBounded Dump
CHECK_DEADLOCK FALSE
