SPECIFICATION Spec
CONSTANTS
  Graphs <- Small
  DepthLimit = 3
  PointsPerLeaf = 3
  Budget = 9
INVARIANTS StackBounded WorkBounded
PROPERTIES Halts
CHECK_DEADLOCK FALSE
