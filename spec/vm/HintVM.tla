------------------------------- MODULE HintVM -------------------------------
(***************************************************************************)
(* Control flow of skrifa's TrueType bytecode interpreter                  *)
(* (skrifa/src/outline/glyf/hint/engine/{dispatch,control_flow,definition}  *)
(* .rs, program.rs, call_stack.rs, value_stack.rs) in pedantic mode: the   *)
(* guards that bound font-controlled execution.                            *)
(*                                                                         *)
(* Code is a sequence of instructions [op, arg].  The font program is the  *)
(* flat sequence  PUSH 0, FDEF, body0, ENDF, PUSH 1, FDEF, body1, ENDF ... *)
(* (executed once, defining function i = the range after its FDEF up to    *)
(* and including its ENDF); the glyph program is `glyph`.  A call runs     *)
(* inside the flat font code, so a jump may leave the function's own body. *)
(* Jumps carry a static target (k instructions relative to themselves) and *)
(* stand for the byte sequences  PUSHW off, JMPR  /  PUSHW off, SWAP, JROT *)
(* - the assembler of the harness computes `off` in bytes.                 *)
(*                                                                         *)
(* Guards: value stack of StackMax cells, call stack of CallMax records,   *)
(* one LoopBudget for backward jumps and for loop-call iterations,         *)
(* InvalidJump for a jump onto itself, MaxRun executed instructions.       *)
(* Checked: every program halts (step bound), indices stay in range, the   *)
(* outcome is Ok or one of the named error kinds.                          *)
(***************************************************************************)
EXTENDS Integers, Sequences, FiniteSets

CONSTANTS Programs,      \* set of [funcs : Seq(Seq(instr)), glyph : Seq(instr)]
          StackMax, CallMax, Limit, MaxRun,
          NPoints, NCvt    \* points of the glyph incl. phantom points, CVT entries

\* 32-bit two's complement addition without leaving the range on the way (TLC's integers are 32-bit too)
I32Max == 2147483647
I32Min == -2147483647 - 1
AddW(a, b) == IF a >= 0 /\ b >= 0 /\ a > I32Max - b THEN (a - I32Max - 1) + (b - I32Max - 1)
              ELSE IF a < 0 /\ b < 0 /\ a < I32Min - b THEN (a + I32Max + 1) + (b + I32Max + 1)
              ELSE a + b
VARIABLES p, cur, pc, stack, calls, bj, lc, loop, steps, status
vars == <<p, cur, pc, stack, calls, bj, lc, loop, steps, status>>

I(op, arg) == [op |-> op, arg |-> arg]
RECURSIVE FlatFrom(_, _)
FlatFrom(funcs, i) == IF i > Len(funcs) THEN <<>>
                      ELSE <<I("PUSH", i - 1), I("FDEF", 0)>> \o funcs[i] \o <<I("ENDF", 0)>> \o FlatFrom(funcs, i + 1)
FontCode(prog) == FlatFrom(prog.funcs, 1)
\* first instruction of function f (1-based index into the flat font code), 0 if undefined
RECURSIVE StartOf(_, _, _)
StartOf(funcs, f, i) == IF i > f THEN 0 ELSE IF i = f THEN 3 ELSE Len(funcs[i]) + 3 + StartOf(funcs, f, i + 1)
FnStart(prog, f) == IF f < 0 \/ f >= Len(prog.funcs) THEN 0
                    ELSE LET RECURSIVE Off(_) Off(i) == IF i > f THEN 0 ELSE Len(prog.funcs[i]) + 3 + Off(i + 1)
                         IN Off(1) + 3
Code == IF cur = "font" THEN FontCode(p) ELSE p.glyph

Init == /\ p \in Programs /\ cur = "glyph" /\ pc = 1 /\ stack = <<>> /\ calls = <<>>
        /\ bj = 0 /\ lc = 0 /\ loop = 1 /\ steps = 0 /\ status = "run"

S0 == [cur |-> cur, pc |-> pc, stack |-> stack, calls |-> calls, bj |-> bj, lc |-> lc, loop |-> loop, status |-> "run"]
Halt(st, s) == [st EXCEPT !.status = s]
Top == stack[Len(stack)]
Pop1 == SubSeq(stack, 1, Len(stack) - 1)
Pop2 == SubSeq(stack, 1, Len(stack) - 2)

\* scan forward from instruction index i for the ELSE / EIF that ends a false IF (elseStops) or a taken branch
RECURSIVE Scan(_, _, _, _)
Scan(code, i, nest, elseStops) ==
  IF i > Len(code) THEN 0                                    \* UnexpectedEndOfBytecode
  ELSE CASE code[i].op = "IF" -> Scan(code, i + 1, nest + 1, elseStops)
         [] code[i].op = "ELSE" -> IF elseStops /\ nest = 1 THEN i + 1 ELSE Scan(code, i + 1, nest, elseStops)
         [] code[i].op = "EIF" -> IF nest = 1 THEN i + 1 ELSE Scan(code, i + 1, nest - 1, elseStops)
         [] OTHER -> Scan(code, i + 1, nest, elseStops)

\* a taken jump of k instructions from the macro at index pc (k <= 0 is a backward jump in bytes)
Jump(st, k) ==
  IF k <= 0 /\ st.bj + 1 > Limit THEN Halt(st, "ExceededExecutionBudget")
  ELSE [st EXCEPT !.bj = IF k <= 0 THEN @ + 1 ELSE @, !.pc = pc + k]
                                           \* outside 1..Len(code): nothing to decode, the run ends (see Exec)

Enter(st, f, count) ==
  LET start == FnStart(p, f) IN
  IF start = 0 THEN Halt(st, "InvalidDefinition")
  ELSE IF Len(st.calls) >= CallMax THEN Halt(st, "CallStackOverflow")
  ELSE [st EXCEPT !.calls = Append(@, [cur |-> cur, ret |-> pc + 1, count |-> count, start |-> start]),
                  !.cur = "font", !.pc = start]

Exec ==
  IF pc < 1 \/ pc > Len(Code) THEN Halt(S0, "ok")                       \* decode() = None: the run loop ends
  ELSE IF steps >= MaxRun THEN Halt(S0, "ExceededExecutionBudget")
  ELSE LET ins == Code[pc]
           full == Len(stack) >= StackMax
           next == [S0 EXCEPT !.pc = pc + 1]
       IN
       CASE ins.op = "PUSH" -> IF full THEN Halt(S0, "ValueStackOverflow") ELSE [next EXCEPT !.stack = Append(stack, ins.arg)]
         [] ins.op = "POP" -> IF stack = <<>> THEN Halt(S0, "ValueStackUnderflow") ELSE [next EXCEPT !.stack = Pop1]
         [] ins.op = "DUP" -> IF stack = <<>> THEN Halt(S0, "ValueStackUnderflow")
                              ELSE IF full THEN Halt(S0, "ValueStackOverflow") ELSE [next EXCEPT !.stack = Append(stack, Top)]
         [] ins.op = "ADD" -> IF Len(stack) < 2 THEN Halt(S0, "ValueStackUnderflow")
                              ELSE [next EXCEPT !.stack = Append(Pop2, AddW(stack[Len(stack) - 1], Top))]
         [] ins.op = "JSELF" -> IF full THEN Halt(S0, "ValueStackOverflow") ELSE Halt(S0, "InvalidJump")      \* PUSH 0, JMPR
         [] ins.op = "JMPR" -> IF full THEN Halt(S0, "ValueStackOverflow") ELSE Jump(S0, ins.arg)           \* PUSHW off, JMPR
         [] ins.op \in {"JROT", "JROF"} ->                                                              \* PUSHW off, SWAP, JROx
              IF full THEN Halt(S0, "ValueStackOverflow")
              ELSE IF stack = <<>> THEN Halt(S0, "ValueStackUnderflow")
              ELSE IF (ins.op = "JROT") = (Top # 0) THEN Jump([S0 EXCEPT !.stack = Pop1], ins.arg)
              ELSE [next EXCEPT !.stack = Pop1]
         [] ins.op = "IF" ->
              IF stack = <<>> THEN Halt(S0, "ValueStackUnderflow")
              ELSE IF Top # 0 THEN [next EXCEPT !.stack = Pop1]
              ELSE LET t == Scan(Code, pc + 1, 1, TRUE) IN
                   IF t = 0 THEN Halt([S0 EXCEPT !.stack = Pop1], "UnexpectedEndOfBytecode") ELSE [S0 EXCEPT !.stack = Pop1, !.pc = t]
         [] ins.op = "ELSE" -> LET t == Scan(Code, pc + 1, 1, FALSE) IN
                               IF t = 0 THEN Halt(S0, "UnexpectedEndOfBytecode") ELSE [S0 EXCEPT !.pc = t]
         [] ins.op = "EIF" -> next
         [] ins.op = "FDEF" -> IF stack = <<>> THEN Halt(S0, "ValueStackUnderflow")                    \* only reached in a glyph run
                               ELSE Halt([S0 EXCEPT !.stack = Pop1], "DefinitionInGlyphProgram")
         [] ins.op = "ENDF" ->
              IF calls = <<>> THEN Halt(S0, "CallStackUnderflow")
              ELSE LET r == calls[Len(calls)] IN
                   IF r.count > 1 THEN [S0 EXCEPT !.calls[Len(calls)].count = r.count - 1, !.pc = r.start]
                   ELSE [S0 EXCEPT !.calls = SubSeq(calls, 1, Len(calls) - 1), !.cur = r.cur, !.pc = r.ret]
         [] ins.op = "CALL" -> IF stack = <<>> THEN Halt(S0, "ValueStackUnderflow")
                               ELSE Enter([S0 EXCEPT !.stack = Pop1], Top, 1)
         [] ins.op = "LOOPCALL" ->
              IF Len(stack) < 2 THEN Halt(S0, "ValueStackUnderflow")
              ELSE LET f == Top  count == stack[Len(stack) - 1]  st == [S0 EXCEPT !.stack = Pop2] IN
                   IF count <= 0 THEN [st EXCEPT !.pc = pc + 1]
                   ELSE IF lc + count > Limit THEN Halt(st, "ExceededExecutionBudget")
                   ELSE Enter([st EXCEPT !.lc = lc + count], f, count)
         \* instructions whose work is controlled by a stack operand: the guards are the clamp of the pair count to
         \* what is on the stack (DELTAC) and the 16-bit clamp of the loop counter (SLOOP) - the work of one
         \* instruction never exceeds OpWork
         [] ins.op = "DELTAC" ->
              IF stack = <<>> THEN Halt(S0, "ValueStackUnderflow")
              ELSE IF Top < 0 THEN Halt([S0 EXCEPT !.stack = Pop1], "InvalidStackValue")
              ELSE LET have == (Len(stack) - 1) \div 2
                       k == IF Top < have THEN Top ELSE have
                   IN IF k > 0 /\ NCvt = 0 THEN Halt([S0 EXCEPT !.stack = Pop1], "InvalidCvtIndex")
                      ELSE [next EXCEPT !.stack = SubSeq(stack, 1, Len(stack) - 1 - 2 * k)]
         [] ins.op = "SLOOP" ->
              IF stack = <<>> THEN Halt(S0, "ValueStackUnderflow")
              ELSE IF Top < 0 THEN Halt([S0 EXCEPT !.stack = Pop1], "NegativeLoopCounter")
              ELSE [next EXCEPT !.stack = Pop1, !.loop = IF Top > 65535 THEN 65535 ELSE Top]
         [] ins.op = "FLIPPT" ->
              IF Len(stack) < loop THEN Halt([S0 EXCEPT !.loop = 1], "ValueStackUnderflow")
              ELSE IF \E i \in (Len(stack) - loop + 1)..Len(stack) : stack[i] < 0 \/ stack[i] >= NPoints
                   THEN Halt([S0 EXCEPT !.loop = 1], "InvalidPointIndex")
              ELSE [next EXCEPT !.stack = SubSeq(stack, 1, Len(stack) - loop), !.loop = 1]
         \* arithmetic / rounding / point-moving opcodes (arg = opcode byte): only their stack effect is modelled; the
         \* interesting part is what the real arithmetic does with extreme operands (C20)
         [] ins.op = "A1" -> IF stack = <<>> THEN Halt(S0, "ValueStackUnderflow") ELSE [next EXCEPT !.stack = Append(Pop1, 0)]
         [] ins.op = "A2" -> IF Len(stack) < 2 THEN Halt(S0, "ValueStackUnderflow") ELSE [next EXCEPT !.stack = Append(Pop2, 0)]
         [] ins.op = "P0" -> next
         [] ins.op = "G0" -> IF Len(stack) >= StackMax THEN Halt(S0, "ValueStackOverflow") ELSE [next EXCEPT !.stack = Append(stack, 0)]   \* pushes a measured value (MPPEM, MPS)
         [] ins.op = "P3" -> IF Len(stack) < 3 THEN Halt(S0, "ValueStackUnderflow") ELSE [next EXCEPT !.stack = SubSeq(stack, 1, Len(stack) - 3)]
         [] ins.op = "P5" -> IF Len(stack) < 5 THEN Halt(S0, "ValueStackUnderflow") ELSE [next EXCEPT !.stack = SubSeq(stack, 1, Len(stack) - 5)]
         [] ins.op = "P1" -> IF stack = <<>> THEN Halt(S0, "ValueStackUnderflow") ELSE [next EXCEPT !.stack = Pop1]
         [] ins.op = "P2" -> IF Len(stack) < 2 THEN Halt(S0, "ValueStackUnderflow") ELSE [next EXCEPT !.stack = Pop2]
         [] OTHER -> Halt(S0, "UnhandledOpcode")

Step ==
  /\ status = "run"
  /\ LET n == Exec IN
     /\ cur' = n.cur /\ pc' = n.pc /\ stack' = n.stack /\ calls' = n.calls /\ bj' = n.bj /\ lc' = n.lc /\ loop' = n.loop /\ status' = n.status
  /\ steps' = steps + 1 /\ UNCHANGED p

Spec == Init /\ [][Step]_vars /\ WF_vars(Step)

ErrorKinds == {"InvalidStackValue", "InvalidCvtIndex", "NegativeLoopCounter", "InvalidPointIndex", "ExceededExecutionBudget", "ValueStackOverflow", "ValueStackUnderflow", "InvalidJump", "InvalidDefinition",
               "CallStackOverflow", "CallStackUnderflow", "UnexpectedEndOfBytecode", "DefinitionInGlyphProgram", "UnhandledOpcode"}
TypeOK == /\ Len(stack) <= StackMax /\ Len(calls) <= CallMax /\ bj <= Limit /\ lc <= Limit /\ loop \in 0..65535
          /\ status \in {"run", "ok"} \cup ErrorKinds
\* no program runs longer than the budgets allow: each of at most Limit backward jumps / loop iterations / calls can
\* be followed by at most one pass over the code
LongestCode == Len(FontCode(p)) + Len(p.glyph) + 2
StepBound == steps <= (2 * Limit + CallMax + 2) * LongestCode + 2
Halts == <>(status # "run")
=============================================================================
