------------------------------ MODULE HintVMMC ------------------------------
(* Bounded program families for HintVM.tla and the export of each program with the model's outcome. *)
EXTENDS HintVM, TLC, Json

Vals == {-1, 0, 1, 2, 40}
Alphabet == {I("PUSH", v) : v \in Vals} \cup {I("POP", 0), I("DUP", 0), I("ADD", 0), I("JSELF", 0), I("IF", 0), I("ELSE", 0), I("EIF", 0),
             I("CALL", 0), I("LOOPCALL", 0), I("ENDF", 0)} \cup {I(j, k) : j \in {"JMPR", "JROT", "JROF"}, k \in {-2, 0, 2, 9}}
BodyAlphabet == {I("PUSH", v) : v \in {0, 1}} \cup {I("POP", 0), I("DUP", 0), I("CALL", 0), I("LOOPCALL", 0), I("IF", 0), I("EIF", 0),
                 I("JMPR", -1), I("JMPR", 3), I("JROT", -2)}
SeqsUpTo(S, n) == UNION {[1..k -> S] : k \in 0..n}
Bodies == {<<>>, <<I("PUSH", 0), I("CALL", 0)>>, <<I("PUSH", 1), I("CALL", 0)>>, <<I("PUSH", 0), I("CALL", 0), I("PUSH", 0), I("CALL", 0)>>,
           <<I("PUSH", 1)>>, <<I("POP", 0)>>, <<I("PUSH", 3), I("PUSH", 0), I("LOOPCALL", 0)>>, <<I("JMPR", 0)>>, <<I("JMPR", 9)>>,
           <<I("DUP", 0), I("IF", 0), I("PUSH", -1), I("ADD", 0), I("DUP", 0), I("PUSH", 0), I("CALL", 0), I("PUSH", 0), I("CALL", 0), I("EIF", 0)>>}
\* quick: all glyph programs of length <= 3 over the alphabet with two fixed functions; plus every pair of catalogue bodies with short glyph programs
Big == I("PUSH", 1073741824)
OperandLoops == {[funcs |-> <<<<I("PUSH", 1)>>, <<>>>>, glyph |-> g] : g \in {
    <<Big, I("DELTAC", 0), Big, I("DELTAC", 0), Big, I("DELTAC", 0), Big, I("DELTAC", 0), Big, I("DELTAC", 0), Big, I("DELTAC", 0), Big, I("DELTAC", 0), Big, I("DELTAC", 0)>>,
    <<I("PUSH", 5), I("PUSH", 6), Big, I("DELTAC", 0)>>, <<I("PUSH", -1), I("DELTAC", 0)>>, <<I("PUSH", 0), I("DELTAC", 0)>>,
    <<Big, I("SLOOP", 0), I("FLIPPT", 0)>>, <<I("PUSH", -2), I("SLOOP", 0)>>, <<I("PUSH", 0), I("PUSH", 1), I("PUSH", 2), I("PUSH", 3), I("SLOOP", 0), I("FLIPPT", 0)>>,
    <<I("PUSH", 0), I("PUSH", 40), I("PUSH", 2), I("SLOOP", 0), I("FLIPPT", 0)>>, <<I("PUSH", 0), I("SLOOP", 0), I("FLIPPT", 0), I("FLIPPT", 0)>>}}
ProgramsQuick == {[funcs |-> <<Bodies1, Bodies2>>, glyph |-> g] : Bodies1 \in {<<I("PUSH", 1)>>}, Bodies2 \in {<<I("PUSH", 0), I("CALL", 0)>>}, g \in SeqsUpTo(Alphabet, 3)}
                 \cup {[funcs |-> <<b1, b2>>, glyph |-> g] : b1 \in Bodies, b2 \in Bodies,
                       g \in {<<I("PUSH", 0), I("CALL", 0)>>, <<I("PUSH", 1), I("CALL", 0)>>, <<I("PUSH", 200), I("PUSH", 0), I("LOOPCALL", 0)>>,
                              <<I("PUSH", 120), I("PUSH", 0), I("LOOPCALL", 0)>>, <<I("PUSH", 121), I("PUSH", 0), I("LOOPCALL", 0)>>,
                              <<I("PUSH", 121), I("PUSH", -1), I("ADD", 0), I("DUP", 0), I("JROT", -3)>>, <<I("PUSH", 122), I("PUSH", -1), I("ADD", 0), I("DUP", 0), I("JROT", -3)>>,
                              <<I("PUSH", 31), I("PUSH", 0), I("CALL", 0)>>, <<I("PUSH", 60), I("PUSH", 1), I("LOOPCALL", 0), I("PUSH", 70), I("PUSH", 0), I("LOOPCALL", 0)>>}}
                 \cup OperandLoops
\* ---- extreme operands (C20): every unary / binary arithmetic opcode on boundary values, and point / CVT moves ----
MaxI == 2147483647
MinI == -2147483647 - 1
Extremes == {0, 1, -1, 32, 63, 64, 1073741824, -1073741824, MaxI, MinI}
Unary == {100, 101, 102, 103, 104, 105, 106, 107, 108, 109, 110, 111, 86, 87}      \* ABS NEG FLOOR CEILING ROUND[0-3] NROUND[0-3] ODD EVEN
Binary == {96, 97, 98, 99, 139, 140}                                                \* ADD SUB DIV MUL MAX MIN
NoFuncs == <<<<>>, <<>>>>
ArithPrograms ==
  {[funcs |-> NoFuncs, glyph |-> <<I("PUSH", a), I("A1", o), I("POP", 0)>>] : a \in Extremes, o \in Unary}
  \cup {[funcs |-> NoFuncs, glyph |-> <<I("PUSH", a), I("PUSH", b), I("A2", o), I("POP", 0)>>] : a \in Extremes, b \in Extremes, o \in Binary}
  \* SROUND / S45ROUND with every period / phase / threshold nibble pattern class, then ROUND
  \cup {[funcs |-> NoFuncs, glyph |-> <<I("PUSH", n), I("P1", sr), I("PUSH", a), I("A1", 104), I("POP", 0)>>] : n \in {0, 15, 64, 127, 128, 191, 192, 255}, sr \in {118, 119}, a \in Extremes}
  \* SCFS / SHPIX / MSIRP on point 1 with extreme distances (SVTCA[x] first), then read back with GC
  \cup {[funcs |-> NoFuncs, glyph |-> <<I("P0", 1), I("PUSH", 1), I("PUSH", a), I("P2", mv), I("PUSH", 1), I("A1", 70), I("POP", 0)>>] : a \in Extremes, mv \in {72, 56}}
  \* write / read the control value table with extreme values (pixels and font units), move a point to it
  \cup {[funcs |-> NoFuncs, glyph |-> <<I("PUSH", 1), I("PUSH", a), I("P2", w), I("PUSH", 1), I("A1", 69), I("POP", 0), I("PUSH", 2), I("PUSH", 1), I("P2", 63)>>] : a \in Extremes, w \in {68, 112}}
  \* instructions that push a measured value: MPPEM, MPS (their operand is the instance's size: replayed at a huge one too)
  \cup {[funcs |-> NoFuncs, glyph |-> <<I("G0", o), I("POP", 0)>>] : o \in {75, 76}}
\* every point / CVT / state instruction with a (mostly valid) first operand and an extreme second one
Firsts == {0, 1, 3, 6, 7, -1, MaxI, MinI}
Pop2Ops == {72, 56, 58, 59, 62, 63, 224, 228, 255, 68, 112, 66, 39, 6, 8, 134, 10, 11, 142, 129}
Pop1Ops == {46, 47, 192, 205, 223, 60, 57, 50, 52, 54, 16, 19, 31, 30, 29, 26, 94, 95, 133, 41, 38, 37, 23}
Push1Ops == {70, 71, 69, 67, 136}                 \* GC[0] GC[1] RCVT RS GETINFO: pop 1 push 1
OperandPrograms ==
  {[funcs |-> NoFuncs, glyph |-> <<I("PUSH", a), I("PUSH", b), I("P2", o)>>] : a \in Firsts, b \in Extremes, o \in Pop2Ops}
  \cup {[funcs |-> NoFuncs, glyph |-> <<I("PUSH", b), I("PUSH", a), I("P2", o)>>] : a \in {0, 1, 3}, b \in Extremes, o \in Pop2Ops}
  \cup {[funcs |-> NoFuncs, glyph |-> <<I("PUSH", b), I("P1", o)>>] : b \in Extremes \cup Firsts, o \in Pop1Ops}
  \cup {[funcs |-> NoFuncs, glyph |-> <<I("PUSH", b), I("A1", o), I("POP", 0)>>] : b \in Extremes \cup Firsts, o \in Push1Ops}
  \cup {[funcs |-> NoFuncs, glyph |-> <<I("PUSH", a), I("PUSH", b), I("A2", 73), I("POP", 0)>>] : a \in Firsts, b \in Firsts}      \* MD
  \* move two points far apart, then the instructions that measure / intersect / interpolate between them
  \cup {[funcs |-> NoFuncs, glyph |-> <<I("PUSH", 1), I("PUSH", a), I("P2", 72), I("P0", 0), I("PUSH", 2), I("PUSH", b), I("P2", 72),
                                         I("PUSH", 0), I("PUSH", 1), I("PUSH", 2), I("PUSH", 3), I("PUSH", 4), I("P5", 15),
                                         I("PUSH", 1), I("P1", 16), I("PUSH", 2), I("P1", 17), I("PUSH", 3), I("P1", 57),
                                         I("PUSH", 1), I("PUSH", 2), I("A2", 73), I("POP", 0), I("P0", 48), I("P0", 49)>>] : a \in Extremes, b \in Extremes}
\* delta base / shift set to extreme values, then one delta exception whose ppem selector matches the instance (16 ppem)
DeltaPrograms ==
  {[funcs |-> NoFuncs, glyph |-> <<I("PUSH", v), I("P1", s), I("PUSH", a), I("PUSH", b), I("PUSH", 1), I("P3", d)>>] :
     v \in {-1, -2, MinI, 0, 6, 7, 100, MaxI}, s \in {95, 94}, a \in {120, 127, 1}, b \in {120, 127, 1}, d \in {115, 116, 117, 93, 113, 114}}
ProgramsArith == ArithPrograms \cup OperandPrograms \cup DeltaPrograms
Dump == (status # "run") => PrintT(<<"PROG", ToJson([funcs |-> p.funcs, glyph |-> p.glyph, outcome |-> status, steps |-> steps])>>)
=============================================================================
