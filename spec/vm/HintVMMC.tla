------------------------------ MODULE HintVMMC ------------------------------
(* Bounded program families for HintVM.tla and the export of each program with the model's outcome. *)
EXTENDS HintVM, TLC, Json

Vals == {-1, 0, 1, 2, 40}
Alphabet == {I("PUSH", v) : v \in Vals} \cup {I("POP", 0), I("DUP", 0), I("ADD", 0), I("JSELF", 0), I("IF", 0), I("ELSE", 0), I("EIF", 0),
             I("CALL", 0), I("LOOPCALL", 0), I("ENDF", 0)} \cup {I(j, k) : j \in {"JMPR", "JROT", "JROF"}, k \in {-2, 0, 2, 9}}
BodyAlphabet == {I("PUSH", v) : v \in {0, 1}} \cup {I("POP", 0), I("DUP", 0), I("CALL", 0), I("LOOPCALL", 0), I("IF", 0), I("EIF", 0),
                 I("JMPR", -1), I("JMPR", 3), I("JROT", -2)}
SeqsUpTo(S, n) == UNION {[1..k -> S] : k \in 0..n}
Bodies == {<<>>, <<I("PUSH", 0), I("CALL", 0)>>, <<I("PUSH", 1), I("CALL", 0)>>, <<I("PUSH", 0), I("CALL", 0), I("PUSH", 0), I("CALL", 0)>>,
           <<I("PUSH", 1)>>, <<I("POP", 0)>>, <<I("PUSH", 3), I("PUSH", 0), I("LOOPCALL", 0)>>, <<I("JMPR", 0)>>, <<I("JMPR", 9)>>,
           <<I("DUP", 0), I("IF", 0), I("PUSH", -1), I("ADD", 0), I("DUP", 0), I("PUSH", 0), I("CALL", 0), I("PUSH", 0), I("CALL", 0), I("EIF", 0)>>}
\* quick: all glyph programs of length <= 3 over the alphabet with two fixed functions; plus every pair of catalogue bodies with short glyph programs
Big == I("PUSH", 1073741824)
OperandLoops == {[funcs |-> <<<<I("PUSH", 1)>>, <<>>>>, glyph |-> g] : g \in {
    <<Big, I("DELTAC", 0), Big, I("DELTAC", 0), Big, I("DELTAC", 0), Big, I("DELTAC", 0), Big, I("DELTAC", 0), Big, I("DELTAC", 0), Big, I("DELTAC", 0), Big, I("DELTAC", 0)>>,
    <<I("PUSH", 5), I("PUSH", 6), Big, I("DELTAC", 0)>>, <<I("PUSH", -1), I("DELTAC", 0)>>, <<I("PUSH", 0), I("DELTAC", 0)>>,
    <<Big, I("SLOOP", 0), I("FLIPPT", 0)>>, <<I("PUSH", -2), I("SLOOP", 0)>>, <<I("PUSH", 0), I("PUSH", 1), I("PUSH", 2), I("PUSH", 3), I("SLOOP", 0), I("FLIPPT", 0)>>,
    <<I("PUSH", 0), I("PUSH", 40), I("PUSH", 2), I("SLOOP", 0), I("FLIPPT", 0)>>, <<I("PUSH", 0), I("SLOOP", 0), I("FLIPPT", 0), I("FLIPPT", 0)>>}}
ProgramsQuick == {[funcs |-> <<Bodies1, Bodies2>>, glyph |-> g] : Bodies1 \in {<<I("PUSH", 1)>>}, Bodies2 \in {<<I("PUSH", 0), I("CALL", 0)>>}, g \in SeqsUpTo(Alphabet, 3)}
                 \cup {[funcs |-> <<b1, b2>>, glyph |-> g] : b1 \in Bodies, b2 \in Bodies,
                       g \in {<<I("PUSH", 0), I("CALL", 0)>>, <<I("PUSH", 1), I("CALL", 0)>>, <<I("PUSH", 200), I("PUSH", 0), I("LOOPCALL", 0)>>,
                              <<I("PUSH", 120), I("PUSH", 0), I("LOOPCALL", 0)>>, <<I("PUSH", 121), I("PUSH", 0), I("LOOPCALL", 0)>>,
                              <<I("PUSH", 121), I("PUSH", -1), I("ADD", 0), I("DUP", 0), I("JROT", -3)>>, <<I("PUSH", 122), I("PUSH", -1), I("ADD", 0), I("DUP", 0), I("JROT", -3)>>,
                              <<I("PUSH", 31), I("PUSH", 0), I("CALL", 0)>>, <<I("PUSH", 60), I("PUSH", 1), I("LOOPCALL", 0), I("PUSH", 70), I("PUSH", 0), I("LOOPCALL", 0)>>}}
                 \cup OperandLoops
ProgramsThorough == ProgramsQuick \cup {[funcs |-> <<b1, b2>>, glyph |-> g] : b1 \in {<<I("PUSH", 1)>>, <<I("POP", 0)>>}, b2 \in {<<>>}, g \in SeqsUpTo(Alphabet, 4)}

Dump == (status # "run") => PrintT(<<"PROG", ToJson([funcs |-> p.funcs, glyph |-> p.glyph, outcome |-> status, steps |-> steps])>>)
=============================================================================
