------------------------------ MODULE HintVMMCT ------------------------------
(* The thorough program families of HintVMMC, in a module of their own: TLC evaluates every constant definition of the
   modules it loads, and these two sets take a minute each to build. *)
EXTENDS HintVMMC
\* thorough: every glyph program of length <= 4, in two halves (TLC materialises a set of initial states; one million is its limit)
ProgramsThorough == {[funcs |-> <<<<I("PUSH", 1)>>, <<>>>>, glyph |-> g] : g \in SeqsUpTo(Alphabet, 4)}
ProgramsThoroughB == {[funcs |-> <<<<I("POP", 0)>>, <<>>>>, glyph |-> g] : g \in SeqsUpTo(Alphabet, 4)}

=============================================================================
