SPECIFICATION Spec
CONSTANTS
  Programs <- ProgramsThoroughB
  StackMax = 40
  CallMax = 32
  Limit = 120
  MaxRun = 1000000
  NPoints = 7
  NCvt = 0
INVARIANTS TypeOK StepBound Dump
PROPERTIES Halts
CHECK_DEADLOCK FALSE
