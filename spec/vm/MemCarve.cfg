SPECIFICATION Spec
CONSTANTS
  Layouts <- LayoutsA
INVARIANTS InBounds AdvertisedSuffices DumpFamily
CHECK_DEADLOCK FALSE
