------------------------------ MODULE MemCarve ------------------------------
(***************************************************************************)
(* Caller-supplied scratch memory for glyph loading                        *)
(* (skrifa/src/outline/glyf/memory.rs): the buffer starts at any address   *)
(* (misalignment 0..7) and has any length; the loader carves typed slices  *)
(* out of it by checked splitting after aligning.                          *)
(*   Slices : sequence of <<bytes, alignment>> needed for a glyph          *)
(*   Need   = sum of bytes + worst-case alignment slack = the advertised   *)
(*            size (draw_memory_size)                                      *)
(* Theorem (TLC, all buffers up to Need + 8 at every misalignment for a    *)
(* family of slice layouts): carving never reads outside the buffer; it    *)
(* succeeds whenever len >= Need, and otherwise either succeeds or reports *)
(* InsufficientMemory.  The (misalignment, length) family is exported for  *)
(* replay on OutlineGlyph::draw with_memory.                               *)
(***************************************************************************)
EXTENDS Integers, Sequences, FiniteSets, TLC, Json

CONSTANTS Layouts      \* set of slice sequences
VARIABLES layout, mis, len
vars == <<layout, mis, len>>

RECURSIVE Sum(_, _)
Sum(s, i) == IF i > Len(s) THEN 0 ELSE s[i][1] + Sum(s, i + 1)
MaxAlign(s) == IF s = <<>> THEN 1 ELSE LET A == {s[i][2] : i \in DOMAIN s} IN CHOOSE a \in A : \A b \in A : b <= a
\* advertised size: the bytes plus one worst-case alignment pad per alignment class change (here: per slice)
Need(s) == Sum(s, 1) + (IF s = <<>> THEN 0 ELSE MaxAlign(s))

Pad(addr, a) == (a - (addr % a)) % a
\* carve from offset `off` (address mis + off): returns the end offset or -1
RECURSIVE Carve(_, _, _, _, _)
Carve(s, i, off, m, l) ==
  IF i > Len(s) THEN off
  ELSE LET start == off + Pad(m + off, s[i][2])  end == start + s[i][1] IN
       IF end > l THEN -1 ELSE Carve(s, i + 1, end, m, l)

Init == layout \in Layouts /\ mis \in 0..7 /\ len \in 0..(Need(layout) + 8)
Spec == Init /\ [][UNCHANGED vars]_vars
InBounds == Carve(layout, 1, 0, mis, len) <= len
AdvertisedSuffices == len >= Need(layout) => Carve(layout, 1, 0, mis, len) >= 0
\* family for replay: lengths relative to the advertised size of the real glyph
Family == {[mis |-> m, mode |-> md, k |-> k] : m \in 0..7, md \in {"below", "abs"}, k \in 0..48} \cup {[mis |-> m, mode |-> "frac", k |-> k] : m \in 0..7, k \in 0..8}
SetToSeq(S) == LET RECURSIVE R(_) R(T) == IF T = {} THEN <<>> ELSE LET x == CHOOSE x \in T : TRUE IN <<x>> \o R(T \ {x}) IN R(S)
DumpFamily == (mis = 0 /\ len = 0 /\ layout = CHOOSE x \in Layouts : TRUE) => PrintT(<<"MEMFAMILY", ToJson(SetToSeq(Family))>>)
\* the loader orders its slices by decreasing alignment, each a multiple of its alignment: only the first pad is ever needed
LayoutsA == {<<>>, <<<<8, 4>>>>, <<<<8, 4>>, <<6, 2>>, <<3, 1>>>>, <<<<16, 4>>, <<8, 4>>, <<2, 2>>, <<3, 1>>>>, <<<<4, 4>>, <<5, 1>>>>, <<<<12, 4>>, <<4, 2>>, <<7, 1>>>>}
\* a layout that puts narrow slices first needs more padding than advertised (the theorem must fail: non-vacuity)
LayoutsBad == {<<<<1, 1>>, <<4, 4>>, <<1, 1>>, <<4, 4>>, <<1, 1>>, <<4, 4>>>>}
=============================================================================
