SPECIFICATION Spec
CONSTANTS
  Layouts <- LayoutsBad
INVARIANTS InBounds AdvertisedSuffices
CHECK_DEADLOCK FALSE
