----------------------------- MODULE TotalTrace -----------------------------
(***************************************************************************)
(* Trace validation for the totality property (C02): every observed call   *)
(* ends in a value, an absence or one of the named errors - never a panic, *)
(* never without a result inside the deadline.                             *)
(*   vm     a HintVM.tla program run by skrifa's interpreter: the pedantic *)
(*          outcome is Ok or a HintErrorKind of the model's vocabulary,    *)
(*          the non-pedantic draw never surfaces an error; agreement with  *)
(*          the model's own outcome is recorded (`agree`) and reported,    *)
(*          a difference alone is not a violation of totality              *)
(*   graph  a Composite.tla graph loaded by the glyf loader                *)
(*   drive  the public API driven over a (damaged) font with hostile       *)
(*          arguments                                                      *)
(***************************************************************************)
EXTENDS Integers, Sequences, TraceIO

Kinds == {"ok", "ExceededExecutionBudget", "ValueStackOverflow", "ValueStackUnderflow", "InvalidJump", "InvalidDefinition",
          "CallStackOverflow", "CallStackUnderflow", "UnexpectedEndOfBytecode", "DefinitionInGlyphProgram", "UnhandledOpcode",
          "NestedDefinition", "InvalidStackValue", "InvalidCvtIndex", "NegativeLoopCounter", "InvalidPointIndex", "InvalidPointRange"}
TVm == IsEvent("vm") /\ Ev.real \in Kinds /\ Ev.lax = "ok" /\ Ev.model \in Kinds
TGraph == IsEvent("graph") /\ Ev.real \in {"ok", "error", "absent"} /\ Ev.ms <= 5000
          /\ (Ev.model = "ok" /\ Ev.real = "ok" => Ev.moves = Ev.leaves)       \* a loaded glyph has the modelled number of contours
TDrive == IsEvent("drive") /\ Ev.outcome = "value"
\* scratch memory (MemCarve.tla): the advertised size always suffices, anything else is Ok or InsufficientMemory
TMem == IsEvent("mem") /\ Ev.outcome \in {"ok", "InsufficientMemory"} /\ (Ev.must_fit => Ev.outcome = "ok") /\ (Ev.outcome = "ok" => Ev.same)
\* a chain of n nested paints / components run in a child process: a result, not a crash
TDeep == IsEvent("deep") /\ Ev.outcome \in {"ok", "error"}
TInit == l = 1
TraceSpec == TInit /\ [][TVm \/ TGraph \/ TDrive \/ TMem \/ TDeep]_l
=============================================================================
