#!/bin/bash
# Closing routine: every quick check on the current tree, then the derived documents.
# usage: tools/closing.sh [quick|thorough]   (log: /tmp/closing_<tier>.txt)
tier="${1:-quick}"
cd "$(dirname "$0")/.."
log=/tmp/closing_$tier.txt; : > $log
for p in C01 C02 C05 C06 C07 C08 C09 C10 C11 C12 C13 C14 C16 C17 C18 C19 C20; do
  echo "=== $p $(date -u +%H:%M:%S)" >> $log
  timeout 5400 bin/check $p --tier $tier 2>&1 | grep -v "^\[check\] built" | cut -c1-300 | tail -8 >> $log
  echo "exit=${PIPESTATUS[0]}" >> $log
done
grep -c "^exit=0" $log
grep "^exit=[^0]" $log
