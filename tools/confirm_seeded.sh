#!/bin/bash
# usage: tools/confirm_seeded.sh <seeded dir> <crate> [extra cargo test args]
# Confirms in a scratch worktree (outside /repo and /verif): demo fails with the patch, passes without,
# and the crate's existing tests pass with the patch.  Writes <seeded dir>/confirm.log
set -u
# env: BASE=<commit the patch applies to> (default: pinned snapshot), SUITE=<crate whose existing tests must pass> (default: demo crate)
dir="$(cd "$1" && pwd)"; crate="$2"; shift 2
base="${BASE:-8fbdad5}"; suite="${SUITE:-$crate}"
wt=/tmp/wt_confirm_$$
git -C /repo worktree add -q --detach "$wt" "$base" || exit 2
log="$dir/confirm.log"; : > "$log"
cd "$wt"
mkdir -p "$crate/tests"
name="seeded_$(basename "$dir" | tr -c 'a-zA-Z0-9\n' '_' | tr 'A-Z' 'a-z')"
cp "$dir/demo.rs" "$crate/tests/$name.rs"
echo "### demo WITHOUT patch (expect pass)" >> "$log"
CARGO_TARGET_DIR=/tmp/seeded_target cargo test -p "$crate" --offline --test "$name" "$@" >> "$log" 2>&1; a=$?
git apply "$dir/patch.diff" || { echo "patch does not apply" >> "$log"; }
echo "### demo WITH patch (expect fail)" >> "$log"
CARGO_TARGET_DIR=/tmp/seeded_target cargo test -p "$crate" --offline --test "$name" "$@" >> "$log" 2>&1; b=$?
rm "$crate/tests/$name.rs"
echo "### existing tests of $suite WITH patch (expect pass)" >> "$log"
CARGO_TARGET_DIR=/tmp/seeded_target cargo test -p "$suite" --offline 2>&1 | grep -E "^test result|FAILED|failed" >> "$log"; c=${PIPESTATUS[0]}
cd /; git -C /repo worktree remove --force "$wt"
echo "RESULT demo_without=$a demo_with=$b suite_with=$c" | tee -a "$log"
