#!/usr/bin/env python3
"""Regenerates the machine-derived parts of DESIGN.md between `<!-- BEGIN:x -->` / `<!-- END:x -->` markers:
  rules     - the rule text and assumptions every check writes into evidence/<id>.json
  findings  - the table of known_findings.json
  seeds     - the table of seeded/*/meta.json with the score line
Run after the checks have written fresh evidence."""
import glob, json, os, re

ROOT = os.path.join(os.path.dirname(os.path.abspath(__file__)), "..")


def cell(s):
    return str(s).replace("|", "\\|").replace("\n", " ")


def rules():
    out = []
    for path in sorted(glob.glob(os.path.join(ROOT, "evidence", "C*.json"))):
        d = json.load(open(path))
        out.append("#### %s\n" % d["property_id"])
        out.append(d["coverage"].get("rule", "") + "\n")
        out.append("Assumptions / trusted base: " + "; ".join(d.get("assumptions", [])) + "\n")
    return "\n".join(out)


def findings():
    d = json.load(open(os.path.join(ROOT, "known_findings.json")))
    rows = ["| id | property | status | commit | what |", "|---|---|---|---|---|"]
    for f in d["findings"]:
        what = re.sub(r"^fixed: property=\S+ \S+ ", "", f["what"])
        rows.append("| %s | %s | %s | %s | %s |" % (f["id"], f["property"], f["status"], f.get("commit", "–"), cell(what)))
    n_fixed = sum(1 for f in d["findings"] if f["status"] == "fixed")
    n_open = sum(1 for f in d["findings"] if f["status"] == "open")
    rows.append("")
    rows.append("%d findings: %d repaired by a `fix:` commit, %d open (%s)." % (
        len(d["findings"]), n_fixed, n_open, ", ".join(f["id"] for f in d["findings"] if f["status"] == "open")))
    return "\n".join(rows)


def seeds():
    rows = ["| seeded change (`/verif/seeded/<dir>`) | needs, to manifest | caught by |", "|---|---|---|"]
    n = strengthened = 0
    for path in sorted(glob.glob(os.path.join(ROOT, "seeded", "*", "meta.json"))):
        m = json.load(open(path))
        n += 1
        c = m.get("caught_by", "")
        if re.search(r"(?i)missed", c):
            strengthened += 1
        rows.append("| %s | %s | %s |" % (os.path.basename(os.path.dirname(path)), cell(m.get("needs", "")), cell(c)))
    rows.append("")
    rows.append("Score: %d confirmed changes; all %d are caught by the quick tier of the owning check, %d of them only after "
                "the check was strengthened (each such entry says what was added)." % (n, n, strengthened))
    return "\n".join(rows)


def main():
    p = os.path.join(ROOT, "DESIGN.md")
    s = open(p).read()
    for name, fn in [("rules", rules), ("findings", findings), ("seeds", seeds)]:
        pat = re.compile(r"(<!-- BEGIN:%s -->\n).*?(\n<!-- END:%s -->)" % (name, name), re.S)
        if not pat.search(s):
            raise SystemExit("marker %s missing in DESIGN.md" % name)
        body = fn()
        s = pat.sub(lambda m: m.group(1) + body + m.group(2), s)
    open(p, "w").write(s)


if __name__ == "__main__":
    main()
