#!/usr/bin/env python3
"""Regenerates /verif/MANIFEST.json from the table below (single source of truth)."""
import json, os, subprocess
VERIF = os.path.dirname(os.path.dirname(os.path.abspath(__file__)))

CLAIMED = {
 "C14": dict(
    category="model_checking",
    text="TLC exhaustively explores an implementation-shaped model of the paged, two-mode bit set (BitSetImpl) "
         "in lock step with the mathematical set (IntSetAbs), checking refinement and representation invariants "
         "in every reachable state; every (representation state, operation) edge of that state graph is replayed "
         "on the real IntSet<T> for six element domains and all observers are compared with the specification; "
         "long random histories, RangeSet histories and sparse-bit-set streams recorded from the real code are "
         "validated against the trace specifications.",
    note="Trusted: TLC, the atom abstraction (all driver arguments are atom end points, atoms partition the domain), "
         "hook H2 verif_repr. Sets are over 6-17 atoms; values between atom end points are covered only through "
         "range/iteration observers.",
    technique="TLA+ refinement model checked by TLC; state-graph replay into IntSet<T>; ndjson trace validation by TLC",
    design="4/C14"),
 "C06": dict(
    category="model_checking",
    text="Sfnt.tla states the container rules from the OpenType specification (directory, alignment, padding, "
         "checksums over 16-bit limbs, head adjustment, whole-file checksum) with its own parser; TLC checks that a "
         "reference output satisfies them for every table map over a boundary tag/blob catalogue (M), every "
         "add_raw/copy_missing_tables edge of that state graph is replayed on the real FontBuilder and judged "
         "through read-fonts, all histories reaching one table map must build identical bytes (order independence), "
         "and recorded outputs (replayed edges and random histories with random tags) are parsed and judged by "
         "Sfnt!WellFormed in TLC, independently of read-fonts (V).",
    note="Trusted: TLC, the hand-written source fonts used for copy_missing_tables. Blobs <= 60 bytes, <= 4 "
         "tables in the exhaustive part, <= 8 calls per random history; physical order and searchRange fields are "
         "deliberately not judged (not in the property).",
    technique="TLA+ container semantics + builder state machine checked by TLC; state-graph replay; trace validation with spec-side sfnt parser",
    design="4/C06"),
 "C19": dict(
    category="model_checking",
    text="IFT.tla transcribes 'check entry intersection', invalidating-patch selection and the extension loop; TLC "
         "checks the structural group rules, monotonicity/containment of the offered set, progress of every round, "
         "applied-bit marking and termination (liveness) over exhaustive families of format-2 mapping tables and "
         "chains of font generations; every family member is encoded as real IFT/IFTX bytes and the real "
         "intersecting_patches / select_next_patches answers are compared with the specification's; model and random "
         "extension loops run on the real client with a mock patch server and each round is validated by IFTTrace.",
    note="Trusted: TLC, the transcription of the W3C text (not available offline; follows the repository's doc "
         "comments), the harness's mapping-table encoder and mock patch server. Format 2 tables in IFT.tla (two design axes for "
         "glyph keyed entries, one for invalidating ones), format 1 glyph / feature maps in IFT1.tla (incl. feature maps beyond "
         "16384 entry map records), URI template expansion in UriTemplate.tla; <= 8 code point atoms. Cross-table ties between equally ordered candidates are accepted either way.",
    technique="TLA+ spec of IFT selection/extension checked by TLC (safety + liveness); TLC-enumerated cases replayed on the client; trace validation of real extension loops",
    design="4/C19"),
 "C18": dict(
    category="model_checking",
    text="IFTApply.tla states the effect of table keyed and glyph keyed patch application (first patch wins per "
         "glyph, exact applied bits, frame conditions, every precondition failure and decoder fault is an error "
         "that changes nothing); TLC explores every order, grouping and fault position over a patch catalogue and "
         "checks atomicity, exact bits and confluence; every edge of that graph is replayed on the real patcher "
         "with byte-wise synthesised fonts/patches and a deterministic fault-injecting decoder, both through the "
         "low-level apply_* API in the model's order and through PatchGroup with the caller's status map.",
    note="Trusted: TLC, the harness's font/patch synthesiser and its hand-written projection (loca/glyf/gvar "
         "parsing). glyf/loca + gvar with short offsets, 4 glyphs, blobs <= 4 bytes, groups <= 3 patches in the state "
         "graph; CFF / CFF2 charstrings (INDEX offset-size thresholds) and the 131070-byte reach of short glyf / gvar offsets "
         "(widening) through the threshold families of IFTCff.tla / IFTSizesMC.tla; table keyed patches also through "
         "PatchGroup with the caller's bookkeeping.",
    technique="TLA+ patch-application state machine checked by TLC (invariants + action properties); state-graph replay with fault injection",
    design="4/C18"),
 "C05": dict(
    category="model_checking",
    text="GraphPack.tla states layout soundness independently of the packing heuristic; TLC checks that the "
         "transformations a packer may make (duplication with link retargeting, reordering) preserve the tree "
         "unfolding and that accepted layouts are sound, and enumerates every connected DAG of a boundary family "
         "(sizes around 32K/64K, 16/24/32-bit links, multi-edges); each graph is compiled by the real packer "
         "through the public FontWrite/dump_table API and the raw observations (object copies found by walking the "
         "output, decoded offsets) are judged by GraphPackTrace!SoundObserved in TLC.",
    note="Trusted: TLC, the harness's byte walker. <= 4 nodes; mock objects only here (lookup splitting and extension "
         "promotion are reached through C16's GPOS tables and C07's GSUB value); a reported packing failure is accepted.",
    technique="TLA+ layout-soundness predicate + permitted-transformation model checked by TLC; exhaustive graph enumeration replayed on dump_table; trace validation of observed layouts",
    design="4/C05"),
 "C07": dict(
    category="model_checking",
    text="ObjIds.tla models the one piece of state concurrent compilations share (the atomic object counter); TLC "
         "checks on every interleaving that ids are unique and that rank order equals allocation order, refutes a "
         "negative control, and exports each interleaving as a gap pattern; every pattern is replayed "
         "deterministically through hook H1b on a catalogue of values (graphs that need duplication and space "
         "assignment, cmap, name, FontBuilder) and must reproduce the solo bytes; real threads compile the catalogue "
         "concurrently and their id logs and output hashes are validated by ObjIdsTrace.",
    note="Trusted: TLC, hook H1b (gap injection is equivalent to interleaving because fetch_add is the only access). "
         "Hash-order dependence is only sampled (fresh RandomState per map / per process), not enumerated.",
    technique="TLA+ interleaving model checked by TLC; TLC-generated schedules replayed via an id gap injector; trace validation of real threads",
    design="4/C07"),
 "C13": dict(
    category="model_checking",
    text="PaintTraverse.tla models the COLRv1 traversal (tortoise-and-hare decycler, depth limit, two-pass PaintGlyph "
         "with the collecting painter stack, early returns, the client's cache callback); TLC checks balance on "
         "success, named errors for cyclic/too-deep graphs and a work bound on every graph of exhaustive small "
         "families and on chains up to 66 nodes; every graph is built into a real COLR v1 table, painted with a "
         "recording ColorPainter, and the observed result class, callback stream and paint-node visit count (hook "
         "H5) are judged by PaintTrace in TLC. The model predicts the real stream and visit count exactly on the "
         "current tree (reported as drift, not used as an alarm).",
    note="Trusted: TLC, the harness's COLR builder (write-fonts), hook H5. One representative per paint kind; "
         "<= 4 nodes exhaustively. Found and fixed: exponential re-traversal of nested PaintGlyph (058f9ae).",
    technique="TLA+ traversal model checked by TLC; exhaustive graph enumeration replayed on ColorGlyph::paint; trace validation of callbacks and visit counts",
    design="4/C13"),
 "C08": dict(
    category="model_checking",
    text="Cmap.tla is the reader semantics of cmap formats 4/12/14 written from the OpenType specification (segment "
         "search, idRangeOffset addressing, modulo-65536 deltas, UVS default/non-default lookup); TLC checks it against "
         "a reference encoder on every mapping of a boundary family and enumerates that family; every mapping is "
         "compiled by Cmap::from_mappings, the emitted arrays are read back and judged by the specification at every "
         "segment edge +-1, and the repository's own readers and iterators are judged against the input mapping "
         "(including all 65536 BMP code points). Two defects were found and fixed (c1d9a2a, 7f63332).",
    note="Trusted: TLC, read-fonts' raw field getters used to extract the arrays. Mappings with <= 3 pairs exhaustively, "
         "runs and random tables beyond; the segment-merging heuristic itself is not specified.",
    technique="TLA+ format semantics checked by TLC; TLC-enumerated mappings replayed on the builder; trace validation of emitted tables and reader answers",
    design="4/C08"),
 "C09": dict(
    category="model_checking",
    text="Glyf.tla is a decoder for simple and composite glyph descriptions and the location table written from the "
         "OpenType specification, plus the length of the canonical shortest encoding; TLC enumerates boundary glyph "
         "families; every glyph goes through GlyfLocaBuilder and the bytes it wrote are decoded and judged by the "
         "specification (equal to the input, padded with at most one zero byte, never longer than canonical, loca "
         "ascending / short format only when representable); read-fonts' readers are judged against the input, "
         "from_bezpath glyphs are drawn unscaled through skrifa and compared with the input path.",
    note="Trusted: TLC, the harness's JSON<->glyph conversion. Composite instructions are not reachable through the "
         "public builder; tables beyond 4 KiB are judged on their loca only.",
    technique="TLA+ glyf/loca decoder + canonical length; TLC-enumerated glyph families replayed on the builder; trace validation of emitted bytes",
    design="4/C09"),
 "C12": dict(
    category="model_checking",
    text="HintInstance.tla models the in-place reconfiguration of the hinting instance (provenance of every retained "
         "buffer; setup / fpgm / prep steps; failure leaves a disabled instance) and TLC checks history independence "
         "(Fresh), FailedIsNone and DrawPure over all short histories of a 27-configuration catalogue; each history is "
         "replayed on one reused HintingInstance and every glyph drawn through it is compared with a fresh instance - "
         "two synthetic fonts make storage, CVT, twilight, FDEF and IDEF state visible in point coordinates; draws "
         "with caller memory (pattern-filled, never cleared, both path styles) at all misalignments, all-zero locations "
         "(hinted and unhinted), and 8 threads sharing an instance - also instances nobody has drawn with yet, behind a barrier - "
         "are compared with the plain draw; every path is checked for the (Move Seg* Close)* grammar.",
    note="Trusted: TLC, the fresh-instance oracle (same build). Histories <= 3; the auto-hinter's lazily filled "
         "metrics cache is exercised by the thread variants (a race can only be missed, not invented) and has no TLA+ module of its own.",
    technique="TLA+ life-cycle model checked by TLC; TLC-generated reconfigure histories replayed on a reused instance; trace validation of draw equality",
    design="4/C12"),
 "C11": dict(
    category="model_checking",
    text="The variation-store builder is specified as a state machine whose optimiser is left open; its contract (every "
         "added delta set is retrievable, region by region, through the index it is mapped to) and the reader semantics "
         "(row decoding with word/long columns, lookup, tent scalars as exact rationals) are written in Ivs.tla. TLC "
         "enumerates all short histories over boundary delta alphabets; every history is compiled by "
         "VariationStoreBuilder in both modes, read back raw and judged by IvsTrace, including compute_delta at probe "
         "locations; fvar normalisation and avar maps are validated as relations on recorded samples.",
    note="Trusted: TLC, read-fonts' raw getters for the store's fields. Coordinates restricted to multiples of 0.25; "
         "HVAR metrics through skrifa's GlyphMetrics on synthetic fonts (index maps, hmtx fall-backs) in font units only.",
    technique="TLA+ builder contract + reader semantics; TLC-enumerated histories replayed on the builder; trace validation of compiled stores and numeric relations",
    design="4/C11"),
 "C10": dict(
    category="model_checking",
    text="Iup.tla gives the specification's inference of un-referenced point deltas in exact rational arithmetic and the "
         "delta optimiser's contract; PackedRuns.tla decodes packed deltas and packed point numbers. TLC enumerates small "
         "contours x deltas x tolerances for iup_delta_optimize and the results are judged by the specification; byte "
         "streams written by PackedDeltas / PackedPointNumbers are decoded by the specification; random glyph variations "
         "are compiled through GlyphVariations/Gvar, read back and judged (required exact, omitted within tolerance by "
         "inference), and drawn by skrifa at several locations against default + scalar * delta.",
    note="Trusted: TLC, read-fonts' tuple iterator for the gvar container (packed runs are decoded independently). "
         "Contours <= 4 points exhaustively; accumulated deltas kept inside the scaler's 16.16 range for the drawing check.",
    technique="TLA+ IUP inference + packed-run decoders; TLC-enumerated cases replayed on the optimiser; trace validation of compiled gvar data",
    design="4/C10"),
 "C16": dict(
    category="model_checking",
    text="Layout.tla gives the reader semantics of Coverage/ClassDef formats 1 and 2, PairPos formats 1 and 2 and MarkBasePos "
         "over a list of subtables, and the meaning of a rule set. TLC proves the splitting step semantics-preserving on a "
         "scaled model and enumerates all subsets of a boundary glyph alphabet for the coverage / class builders. Compiled "
         "GPOS tables (small: fully dumped and evaluated by the specification; several times 64 KiB: split + extension "
         "promotion, evaluated by a walker that is itself validated against the specification) are compared with the rules "
         "for every listed pair and its neighbours.",
    note="Trusted: TLC, serde_json, read-fonts' raw field getters used to dump subtables. Value records limited to "
         "xAdvance/xPlacement/xAdvance-device, anchors to formats 1 and 3; big lookups judged by the validated walker.",
    technique="TLA+ lookup semantics; TLC-enumerated glyph sets replayed on the builders; trace validation of compiled GPOS lookups incl. split/extension",
    design="4/C16"),
 "C17": dict(
    category="model_checking",
    text="Subset.tla models the subsetter's planning and table steps as actions and TLC checks the property's clauses "
         "(closure contained, ids retained, requested characters mapped and nothing else, outlines and advances preserved "
         "through component rewriting and long-metric trimming, gaps empty) for every request over small abstract fonts; "
         "every explored case is replayed on klippa with the abstract font built as a real font, and the reopened subset is "
         "judged by SubsetTrace.tla; random requests, re-subsetting and subsetting-to-everything on all glyf fonts of the "
         "repository corpus are judged by the same trace specification, as is a synthetic variable font with 139 KB of gvar data "
         "(offset format, padding). Serializer.tla models klippa's object serializer as a state machine; every finished call "
         "sequence TLC explores is replayed on the real serializer (sound links, sharing, errors).",
    note="Trusted: TLC, skrifa as the observer of both fonts (the same reader on both sides), read-fonts' composite parser for "
         "the component lists, hook H6 for the renumbering. Requests over 6-glyph model fonts exhaustively, corpus requests sampled.",
    technique="TLA+ plan/table-step model of the subsetter; TLC-enumerated requests replayed on klippa; trace validation of reopened subsets (model fonts + corpus)",
    design="4/C17"),
 "C01": dict(
    category="exploration",
    text="ReadProtocol.tla proves (TLC, all short step programs over boundary operands) that the cursor protocol used by "
         "every generated read() makes a successful finish imply in-bounds getters, and rejects three broken variants. "
         "Cursor sessions recorded from the real readers (hook H3) over the whole corpus are validated against the protocol; "
         "from each accepted session the specification derives boundary truncations and shape-scalar overwrites which are "
         "replayed: the damaged table is read and walked again (budgeted), re-read from an odd address on another thread "
         "with the same digest, and the lookup helpers / glyph loading are driven on the damaged font. Hand-written decoders "
         "have hostile-input models of their own whose cases are replayed: cmap 4 / 12 iterators (CmapIter), packed deltas "
         "(PackedHostile), (chained) context lookup closure, range coverage and Device tables (ContextClosure), the CFF INDEX "
         "(Index), CFF DICT tokens (Dict), simple glyph point data in its OpenType and as-written readings (SimpleGlyph), composite "
         "glyph component records in their full and fast readings (CompositeGlyph), and the charstring evaluator on "
         "Charstring.tla's program family. "
         "Exploration, not proof: tables are reached through the corpus instances of each shape.",
    note="Trusted: TLC; the traversal API as the generic walker (it calls every generated getter); panics are caught as "
         "data. Not covered: table kinds absent from the corpus; CFF/CFF2 beyond INDEX reading, charstring evaluation (verdicts judged under C02) and glyph loading.",
    technique="TLA+ read-protocol model (theorem + rejected mutants); trace validation of recorded cursor sessions; spec-derived boundary mutations replayed on the readers",
    design="4/C01"),
 "C02": dict(
    category="model_checking",
    text="Partial: decides the guards that bound font-controlled execution. HintVM.tla (interpreter control flow with value "
         "stack, call stack, loop budget), Composite.tla (component loading with nesting limit and visit budget), Charstring.tla "
         "(the Type 2 / CFF2 charstring evaluator: operand stack, subroutine frames, nesting limit, every path / hint / blend "
         "operator) and MemCarve.tla (scratch memory carving) are "
         "model-checked for bounded stacks, bounded work and termination over all short programs / small graphs; every "
         "explored program and graph (plus chains and diamond chains stretched to the real limits) is run by skrifa and must "
         "end in a value, an absence or a named error within a deadline, as must the public API driven over every corpus "
         "font and damaged copies with hostile sizes, coordinates, engines, scratch buffers and glyph ids. The charstring programs "
         "(incl. a family that fills the hinter's 96-entry edge map) are also drawn as glyphs of synthetic CFF fonts through skrifa, "
         "and the IFT child-entry relation is exercised as a chain of 300000 entries (stack exhaustion = violation).",
    note="Trusted: TLC, the bytecode assembler of the harness. Not covered by a model: autohinter, "
         "paint graphs (C13), IFT client (C18/C19). Outcome-class agreement with the models is reported, not required.",
    technique="TLA+ models of interpreter control flow and composite loading; TLC-enumerated programs/graphs replayed on skrifa; trace validation of outcomes; API drive with hostile arguments",
    design="4/C02"),
 "C20": dict(
    category="exploration",
    text="No specification of its own (the property is about the build configuration): the harness workspace is rebuilt with "
         "overflow checks and debug assertions and the model-derived input sets are replayed - HintVM.tla programs including "
         "extreme-operand families for every arithmetic, rounding, point, CVT and state instruction, Composite.tla graphs, the "
         "boundary mutations ReadTrace.tla derives for every corpus table, the hostile-argument API drive (incl. the "
         "auto-hinter), writer round trips and corpus subsetting. Overflow / assertion panics are violations of this property; "
         "other findings are left to the property that owns them.",
    note="Exploration: an overflow site no replayed input reaches is not reported. The sites found this way were repaired "
         "(known_findings.json, entries of property C20).",
    technique="strict-profile (overflow-checks + debug-assertions) replay of TLC-enumerated programs/graphs/mutations and corpus drives",
    design="4/C20"),
}

NOT_APPLICABLE = {
 "C03": "Oracle is the external FreeType C library; exact 26.6/16.16 arithmetic of two full rasteriser pipelines cannot be expressed with TLC's 32-bit integers; no state/transition structure to specify.",
 "C04": "Universally quantified over the values of ~300 generated Rust table types; no state machine, oracle is structural equality - a TLA+ specification adds nothing and TLC cannot enumerate Rust values.",
 "C15": "Pure numeric exactness of scalar/fixed-point conversions over all 32-bit operands with 64-bit intermediates and floats; outside TLC's integer range, no case structure for a state graph.",
}
PENDING = "machinery not built yet in this round (planned, see DESIGN.md section 8); not claimed"

def main():
    props = [json.loads(l)["id"] for l in open(os.path.join(VERIF, "properties.jsonl"))]
    hooks = []
    try:
        out = subprocess.run(["git", "-C", "/repo", "log", "--format=%H %s"], stdout=subprocess.PIPE, text=True).stdout
        hooks = [l.split()[0] for l in out.splitlines() if "verif hook" in l]
        fixes = [l.split()[0] for l in out.splitlines() if l.split(" ", 1)[1].startswith("fix:")]
    except Exception:
        pass
    checks = []
    for pid in props:
        if pid not in CLAIMED:
            continue
        c = CLAIMED[pid]
        checks.append({
            "property_id": pid,
            "quick_cmd": "bin/check %s --tier quick" % pid,
            "thorough_cmd": "bin/check %s --tier thorough" % pid,
            "evidence_file": "/verif/evidence/%s.json" % pid,
            "replay_cmd_template": "bin/check %s --replay {path}" % pid,
            "engine": "tlc+harness",
            "level_claimed": {"category": c["category"], "text": c["text"], "design_ref": "DESIGN.md section " + c["design"]},
            "level_note": c["note"],
            "technique": c["technique"],
        })
    na = []
    for pid in props:
        if pid in CLAIMED:
            continue
        na.append({"property_id": pid, "reason": NOT_APPLICABLE.get(pid, PENDING)})
    m = {
        "version": 1,
        "setup_cmd": "cd /verif/harness && CARGO_NET_OFFLINE=true cargo build --release --offline --workspace",
        "hooks": {
            "guard": "googlefonts_fontations_verif",
            "enable": "rustflags --cfg googlefonts_fontations_verif in /verif/harness/.cargo/config.toml (the harness workspace has path dependencies on /repo's crates)",
            "baseline_off_cmd": "cd /repo && cargo nextest run --workspace --no-fail-fast --test-threads 8 --offline || cargo test --workspace --no-fail-fast --offline",
            "source_commits": hooks,
            "add_only": True,
        },
        "engines": [
            {"name": "tlc+harness", "path": "/verif/bin/check", "serves_properties": sorted(CLAIMED),
             "kind_free_text": "TLA+ specifications under /verif/spec checked by TLC; Rust harness under /verif/harness replays TLC state graphs / behaviours into the real code and records traces that TLC validates"},
        ],
        "checks": checks,
        "not_applicable": na,
        "notes": "See DESIGN.md. Exit codes: 0 held, 1 VIOLATION line + replay file, 2 tool error/timeout.",
    }
    with open(os.path.join(VERIF, "MANIFEST.json"), "w") as f:
        json.dump(m, f, indent=1)
    print("claimed:", sorted(CLAIMED), "not claimed:", [x["property_id"] for x in na])

main()
