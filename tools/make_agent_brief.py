#!/usr/bin/env python3
"""usage: make_agent_brief.py <name> <P1> <P2>  -> writes /tmp/agent_<name>.txt for a seeding sub-agent working in /tmp/wt_<name>.
The brief contains only the property records (title, statement, quantifier, anchors) and the one-line ideas of earlier
rounds to avoid - nothing about the checks."""
import glob, json, os, sys
name, props = sys.argv[1], sys.argv[2:]
root = os.path.join(os.path.dirname(os.path.abspath(__file__)), "..")
recs = {json.loads(l)["id"]: json.loads(l) for l in open(os.path.join(root, "properties.jsonl"))}
parts, avoid = [], []
for p in props:
    r = recs[p]
    a = r["anchors"]
    parts.append("--- %s ---\n%s\n\n%s\n\nQuantified over: %s\n\nRelevant code: %s\nMechanisms: %s\n" % (
        p, r["title"], r["statement"], r["quantifier"]["text"], ", ".join(a.get("files", [])),
        "; ".join("%s (%s)" % (m["name"], m["where"]) for m in a.get("mechanism", []))))
    for m in sorted(glob.glob(os.path.join(root, "seeded", p + "-*", "meta.json"))):
        avoid.append("%s: %s" % (p, json.load(open(m)).get("needs", "")[:140]))
tmpl = open("/tmp/agent_prompt_tmpl.txt").read() if os.path.exists("/tmp/agent_prompt_tmpl.txt") else open(os.path.join(root, "tools", "agent_prompt_tmpl.txt")).read()
out = tmpl.replace("@WT@", "/tmp/wt_" + name).replace("@PROPS@", "\n".join(parts)).replace("@AVOID@", "; ".join(avoid))
open("/tmp/agent_%s.txt" % name, "w").write(out)
print(len(out), "bytes ->", "/tmp/agent_%s.txt" % name)
