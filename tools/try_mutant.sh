#!/bin/bash
# usage: tools/try_mutant.sh <patch-file|-> <property id> [tier]   (patch applied to /repo, check run, patch reverted)
set -u
patch="$1"; pid="$2"; tier="${3:-quick}"
cd /repo || exit 2
if ! git diff --quiet; then echo "/repo has uncommitted changes"; exit 2; fi
git apply "$patch" || { echo "patch does not apply"; exit 2; }
cd /verif && bin/check "$pid" --tier "$tier" 2>&1 | grep -E "VIOLATION|KNOWN|TOOL-ERROR|\[check\] C" | head -8
rc=${PIPESTATUS[0]}
git -C /repo checkout -- .
echo "exit=$rc"
