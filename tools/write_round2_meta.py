#!/usr/bin/env python3
"""Writes meta.json for the round-2 seeded changes from the notes below and the RESULT line of each
directory's confirm.log (written by tools/confirm_seeded.sh). Refuses to write a meta for an unconfirmed change."""
import json, os, re, sys

ROOT = os.path.join(os.path.dirname(os.path.abspath(__file__)), "..", "seeded")
R2 = "independent sub-agent given only the property text and a scratch worktree (round 2)"
NOTES = {
    "C08-format4-delta-from-endpoints": ("C08", "write-fonts",
        "a run of >= 3 adjacent BMP code points whose glyph ids are not consecutive although last - first = run length - 1 (e.g. a,b,c -> 10,20,12)",
        "missed at first (mappings of <= 2/3 pairs over a sparse glyph alphabet); caught after adding PermRuns to CmapMC.tla (every assignment of four adjacent glyph ids to four adjacent code points, and of {10,12,20} to three): readers disagree with the input mapping, CmapTrace rejects"),
    "C08-cmap12-limit-drops-last": ("C08", "read-fonts",
        "U+10FFFF mapped and enumerated through Charmap::mappings / Cmap12::iter_with_limits",
        "C08 quick: the alphabet contains U+10FFFF (kept since F7); enumeration differs from the input mapping"),
    "C09-transform-offdiagonal-order": ("C09", "write-fonts",
        "a composite component with a 2x2 transform whose off-diagonal terms differ (shear, rotation)",
        "C09 quick: composite family over transform kinds; GlyfTrace decodes the written bytes and compares with the input"),
    "C09-short-loca-u16-doubling": ("C09", "read-fonts",
        "a short-format loca entry >= 0x8000 (glyf data beyond 64 KiB with short offsets)",
        "first reported as a tool error (the corpus recorder sliced glyph bytes with the reader under test and the specification decoder ran off the data); now a violation: the recorder computes glyph ranges from the raw loca bytes and compares them with Loca::get_raw, and Glyf.tla's byte access is total"),
    "C10-iup-circular-closure": ("C10", "write-fonts",
        "a contour of >= 5 points in which no point is forced (smooth deltas, e.g. a scaled contour)",
        "missed at first (enumerated contours have <= 4 points, random deltas nearly always force a point); caught after adding scaled / stretched contours of 3..10 points to the recorded family: GvarTrace (Iup.tla OptionalOK) rejects"),
    "C10-sparse-zero-run-no-callback": ("C10", "read-fonts",
        "a sparse tuple in which a referenced point has an x delta of 0 stored in a zero run and pins its neighbours",
        "missed at first (independent random deltas per point rarely pin a point between moving parts); caught after adding rigid-run deltas (runs of points moving together, half of the runs not at all) to the gvar family: skrifa's drawing differs from default + scalar * delta"),
    "C11-encoder-chunk-index": ("C11", "write-fonts",
        "more than 65535 distinct rows of one shape, so that one encoding is split into several ItemVariationData subtables",
        "missed at first (stores of at most a few hundred rows); caught after adding the 70 000-row store: every row looked up through the returned index, and the raw bytes of ~270 rows judged by IvsTrace!TIvsRow"),
    "C11-unoptimized-row-cost-precheck": ("C11", "write-fonts",
        "the implicit-index builder (new_with_implicit_indices), >= 2 regions, a row not costlier than the shape so far but with one wider column, e.g. (300, 1) then (1, 300)",
        "C11 quick: every enumerated history is also replayed in implicit-index mode over the 8/16/32-bit delta alphabet; IvsTrace decodes the compiled store"),
    "C16-split-range-record-boundary": ("C16", "write-fonts",
        "a PairPos format 1 subtable beyond 64 KiB whose coverage is in range format, with a split (or index 0) falling on the last glyph of a range record",
        "missed at first (first glyphs of the big lookups formed one contiguous range); caught after the odd big variants got an isolated first glyph and a tail of isolated glyph ids: the validated walker finds pairs without adjustment"),
    "C16-class-rule-first-compatible-subtable": ("C16", "write-fonts",
        "class rules with overlapping, non-identical first classes, a later rule compatible with an earlier subtable but shadowed by a rule in between",
        "missed at first (generated class sets were pairwise disjoint); caught after adding overlapping class rule lists and Layout!Decided (which pairs a priority-ordered rule list decides whatever the subtable breaks): LayoutTrace rejects"),
    "C17-cmap4-head-segment-overlap": ("C17", "klippa",
        "consecutive BMP code points whose new glyph ids form a short run (1-3) immediately followed by a run of >= 4 consecutive ids (large subsets of real fonts)",
        "C17 quick: subsetting every corpus font to everything it contains and random corpus requests; character map clause (a requested character maps to another glyph)"),
    "C17-long-loca-padded-offsets": ("C17", "klippa",
        "a subset with long loca offsets containing an odd-length glyph (re-introduces F10)",
        "C17 quick: corpus requests on fonts with long loca; kept glyph no longer parses / differs"),
    "C13-colrglyph-empty-clipbox-pop": ("C13", "skrifa",
        "a PaintColrGlyph whose clip box has zero or negative extent",
        "missed at first (synthetic clip boxes were all proper); caught after every other synthetic clip box was made degenerate (zero / negative size): unbalanced pop_clip in the callback stream, PaintTrace rejects"),
    "C13-depth-check-only-at-decycled-nodes": ("C13", "skrifa",
        "more than 64 nested paints with no PaintColrLayers / PaintColrGlyph among them (e.g. a chain of PaintTranslate / PaintGlyph)",
        "C13 quick: depth chains of up to 66 nodes over every paint kind; PaintTrace requires the depth error"),
    "C12-alloc-align-to-size": ("C12", "skrifa",
        "caller memory of (nearly) the advertised size starting at an address 1..3 modulo 8",
        "C12 quick: draws with caller memory at every misalignment 0..7 compared with the plain draw"),
    "C12-autohint-styles-kept-on-reconfigure": ("C12", "skrifa",
        "a HintingInstance with Engine::Auto(None) reconfigured from one font to another",
        "missed at first (the auto-hinter was only reached through AutoFallback on one font); caught after adding catalogue configurations 22-25 (Engine::Auto(None) on four fonts of different scripts) and 160 glyphs per font: history replay differs from a fresh instance"),
}

bad = 0
for d, (prop, crate, needs, caught) in sorted(NOTES.items()):
    path = os.path.join(ROOT, d)
    log = os.path.join(path, "confirm.log")
    res = None
    if os.path.exists(log):
        for line in open(log, errors="replace"):
            if line.startswith("RESULT "):
                res = line.strip()
    m = re.match(r"RESULT demo_without=0 demo_with=(\d+) suite_with=0", res or "")
    if not m or m.group(1) == "0":
        print("NOT CONFIRMED:", d, res)
        bad += 1
        continue
    meta = {"breaks_property": prop, "needs": needs, "caught_by": caught, "crate": crate, "produced_by": R2,
            "confirmed": "tools/confirm_seeded.sh: %s (demo passes without the patch, fails with it; existing crate suite passes with it)" % res,
            "check_run": "tools/try_mutant.sh seeded/%s/patch.diff %s -> exit 1 with VIOLATION lines" % (d, prop)}
    json.dump(meta, open(os.path.join(path, "meta.json"), "w"), indent=1)
    print("ok", d)
sys.exit(1 if bad else 0)
