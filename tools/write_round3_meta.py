#!/usr/bin/env python3
"""Writes meta.json for the round-3 seeded changes from the notes below and the RESULT line of each
directory's confirm.log (written by tools/confirm_seeded.sh). Refuses to write a meta for an unconfirmed change."""
import json, os, re, sys

ROOT = os.path.join(os.path.dirname(os.path.abspath(__file__)), "..", "seeded")
R2 = "independent sub-agent given only the property text and a scratch worktree (round 2)"
R3 = "independent sub-agent given only the property text and a scratch worktree (round 3)"
NOTES = {
    "C01-index-get-backwards-offsets": ("C01", "read-fonts",
        "a CFF / CFF2 INDEX whose offset array steps backwards (entry i+1 smaller than entry i, still inside the data)",
        "C01 quick: Index.tla (every small count x offset size x offset array incl. backwards / zero / out-of-data offsets) replayed on Index::new / Index::get - the module had been added while the seeding agents were still running, for this very mechanism"),
    "C01-read-array-ragged-length": ("C01", "read-fonts",
        "a table read as a bare array over its whole payload with a ragged length (loca not a multiple of 2 / 4 for the externally chosen format, cvt of odd length)",
        "missed at first (tables without a typed traversal - loca, cvt - were not re-read by the mutation replay); caught after adding extra readers (loca in both offset formats whatever head says, cvt) to the recorded sessions and the truncation replay"),
    "C20-maxp-stack-plus-32": ("C20", "skrifa",
        "maxp.maxStackElements >= 65504",
        "C20 quick: strict-profile API drive with every 16-bit field of the metric tables at the u16 limits"),
    "C20-apply-blend-negative-count": ("C20", "read-fonts",
        "the CFF2 blend operator with a negative count on the stack and a blend state with at least one region",
        "C20 quick: extreme-operand family of CharstringMC (blends with counts -1, -2, -32768, 32767 under an abstract blend state), added with Charstring.tla while the seeding agents were running"),
    "C02-language-tag-length-31": ("C02", "skrifa",
        "name table version 1 with a language-tag record longer than 30 characters referenced by a name record",
        "C02 quick: the synthetic corpus font carries a version 1 name table with language tags of 2, 29, 30, 31, 32 and 64 characters (added for this mechanism before the change was tried): localized_strings panics"),
    "C02-composite-depth-check-removed": ("C02", "skrifa",
        "a composite glyph that contains itself, or a chain of composites thousands deep",
        "first reported as a tool error (the cyclic graphs of Composite.tla took the replay process down with a stack overflow); now a violation: vlib reports the death of a harness process by SIGABRT / SIGSEGV as an observation about the code under test"),
    "C12-composite-deltas-not-zeroed": ("C12", "skrifa",
        "a variable glyf font away from the default location, a composite glyph with gvar data, caller memory holding arbitrary bytes or reused for a second draw",
        "missed at first (the only variable glyf configurations with composites were at the default location; unhinted caller memory was zero-filled per draw); caught after adding vazirmatn at wght 0.6 / -0.8 to the catalogue and drawing all glyphs through one never-cleared buffer"),
    "C12-autohint-metrics-placeholder-race": ("C12", "skrifa",
        "Engine::Auto, one HintingInstance shared by threads whose first draws of a style overlap",
        "missed at first (the shared instance had already drawn every glyph sequentially before the threads started); caught after adding threads that start together behind a barrier on instances nobody has drawn with yet (6 fresh instances x 8 threads)"),
    "C06-borrowed-head-adjustment": ("C06", "write-fonts",
        "a head table of >= 12 bytes with a non-zero checksum adjustment that reaches the builder as borrowed bytes (copy_missing_tables)",
        "C06 quick: FontBuilder state-graph replay (source font 1 carries head = blob 4, 12 bytes with a non-zero field at 8..12); Sfnt!WellFormed checksum rule"),
    "C06-copy-missing-skips-dsig": ("C06", "write-fonts",
        "copy_missing_tables from a font that has DSIG",
        "C06 quick: FontBuilder state-graph replay (source font 2 carries DSIG); returned table map differs from the model's"),
    "C07-promotion-candidates-hashset": ("C07", "write-fonts",
        "a GSUB/GPOS that needs extension promotion with several lookups of identical density and the cut-off inside the tie group",
        "missed at first (the GSUB value added to the catalogue for this mechanism was too small to overflow); caught after making it 24 lookups x 3000 bytes of substitutes: gap-pattern replay and repeated compilation give different bytes"),
    "C07-object-id-block-overlap": ("C07", "write-fonts",
        "one thread allocating more than 65536 object ids with a compilation straddling the block boundary",
        "C07 quick: long-run family (one thread compiles until > 150 000 ids are used, every result must equal the first), added for this mechanism before the change was tried"),
    "C14-intersects-inverted-fast-path": ("C14", "read-fonts",
        "two inverted sets over a small domain whose excluded counts add up to the domain size while a common member exists",
        "C14 quick: IntSetRefine state-graph replay compares intersects_set of every reachable set with every operand against IntSetAbs"),
    "C14-sbs-children-beyond-u32": ("C14", "read-fonts",
        "a sparse bit set of branch factor 8 at height 11 (or 32 at height 7) with a non-leaf bit whose child starts at 2^32 or above",
        "C14 quick: tallest-trees-at-the-top-of-the-domain family of SparseBitSetMC_top (saturating position arithmetic): decoded members / remainder differ from the specification"),
    "C05-isolate-remaps-all-wide-links": ("C05", "write-fonts",
        "a 32-bit-linked space root that is also referenced by a 16-bit link, whose wide parent has another wide link",
        "C05 quick: enum4tq family (several links between the same two objects), in the quick tier since F30; GraphPackTrace: offsets resolve to the wrong object"),
    "C05-ppf2-split-device-links": ("C16", "write-fonts",
        "a PairPos format 2 subtable beyond 64 KiB that is split, with different device tables in both value records of a class pair",
        "C16 quick: big class-pair lookups with device tables in both value records (variant added for this mechanism before the change was tried), judged by the validated walker. (The change was produced for C05; lookup splitting is exercised by C16's real GPOS tables)"),
    "C18-status-applied-before-apply": ("C18", "incremental-font-transfer",
        "a pending table keyed patch whose application fails (decoder fault or foreign compatibility id)",
        "missed at first (table keyed patches were replayed through the low level call only); caught after replaying every table keyed edge through PatchGroup with the caller's status map and the same decoder fault: the URI is Applied after a failure"),
    "C18-short-offset-limit-65535": ("C18", "incremental-font-transfer",
        "a glyf table with short loca that is 65536..131070 bytes after patching",
        "C18 quick: IFTSizesMC / IFTCff!TSizes (table totals on both sides of the 131070-byte reach of divided-by-two offsets), added for this mechanism before the change was tried - the same family found F35"),
    "C19-intersection-size-by-default-format": ("C19", "incremental-font-transfer",
        "a format 2 table whose default format is glyph keyed with >= 2 intersecting entries overriding their format to table keyed",
        "C19 quick: enumerated format 2 families with per-entry formats; selected group differs from IFT.tla's"),
    "C19-format1-feature-record-width": ("C19", "incremental-font-transfer",
        "a format 1 table with maxGlyphMapEntryIndex < 256 <= maxEntryIndex and a feature map with >= 2 entry map records",
        "C19 quick: IFT1.tla cases with one- and two-byte entry indices (added after round 1)"),
}

bad = 0
for d, (prop, crate, needs, caught) in sorted(NOTES.items()):
    path = os.path.join(ROOT, d)
    log = os.path.join(path, "confirm.log")
    res = None
    if os.path.exists(log):
        for line in open(log, errors="replace"):
            if line.startswith("RESULT "):
                res = line.strip()
    m = re.match(r"RESULT demo_without=0 demo_with=(\d+) suite_with=0", res or "")
    if not m or m.group(1) == "0":
        print("NOT CONFIRMED:", d, res)
        bad += 1
        continue
    check = prop
    if d == "C05-ppf2-split-device-links":
        prop = "C05"
    meta = {"breaks_property": prop, "needs": needs, "caught_by": caught, "crate": crate, "produced_by": R3,
            "confirmed": "tools/confirm_seeded.sh: %s (demo passes without the patch, fails with it; existing crate suite passes with it)" % res,
            "check_run": "tools/try_mutant.sh seeded/%s/patch.diff %s -> exit 1 with VIOLATION lines" % (d, check)}
    json.dump(meta, open(os.path.join(path, "meta.json"), "w"), indent=1)
    print("ok", d)
sys.exit(1 if bad else 0)
