#!/usr/bin/env python3
"""Writes meta.json for the round-4 seeded changes from the notes below and the RESULT line of each
directory's confirm.log (written by tools/confirm_seeded.sh). Refuses to write a meta for an unconfirmed change."""
import json, os, re, sys

ROOT = os.path.join(os.path.dirname(os.path.abspath(__file__)), "..", "seeded")
R2 = "independent sub-agent given only the property text and a scratch worktree (round 2)"
R3 = "independent sub-agent given only the property text and a scratch worktree (round 4)"
NOTES = {
    "C08-format4-range-offset-entries": ("C08", "write-fonts",
        "two separate runs of adjacent BMP code points with non-consecutive glyph ids (two format 4 segments using the glyph id array)",
        "C08 quick: random run mappings and the PermRuns family give several glyph-id-array segments; CmapTrace decodes the written arrays"),
    "C08-cmap4-lookup-above-bmp": ("C08", "read-fonts",
        "a lookup above U+FFFF against a format 4 subtable whose low 16 bits are a mapped BMP character",
        "C08 quick: probes contain U+10000 / U+10FFFF and +-1 of every segment edge; table-level answers compared with the mapping"),
    "C09-transform-flags-xx-one": ("C09", "read-fonts",
        "a composite component with no off-diagonal terms, xx exactly 1.0 and yy different from 1.0 (vertical flip / squeeze)",
        "missed at first (the x/y scale members of the composite family changed both axes); caught after adding transforms in which exactly one diagonal term is 1.0 or one off-diagonal term is 0: GlyfTrace decodes the written bytes"),
    "C09-midpoint-truncated": ("C09", "write-fonts",
        "off-curve, on-curve, off-curve where a coordinate sum of the off-curves is odd and the on-curve sits at the truncated midpoint",
        "missed at first (bezier cases used even coordinates only, on purpose); caught after adding quads whose shared on-curve point sits at or one unit beside the midpoint of its off-curve neighbours, for odd and even sums: drawn path differs from the input"),
    "C10-shared-tuples-beyond-4095": ("C10", "write-fonts",
        "more than 4096 distinct peak tuples, each used by at least two tuple variations",
        "missed at first (a handful of tuples per glyph); caught after adding the big shared-peak gvar (4500 distinct peaks over 20 glyphs, each used twice): tuples read back with another peak, GvarTrace!TGvarBigPeaks"),
    "C10-all-points-before-private-flag": ("C10", "read-fonts",
        "a glyph whose shared point numbers say 'all points' plus a tuple with private sparse point numbers",
        "C10 quick: random glyphs x tuples (dense and sparse tuples mixed) drawn by skrifa and compared with default + scalar * delta"),
    "C11-advance-delta-without-map": ("C11", "read-fonts",
        "an HVAR with no advance mapping (implicit indices) at a non-default location",
        "C11 quick: synthetic HVAR fonts in implicit-index mode measured through GlyphMetrics (IvsTrace!THvar), added after round 3"),
    "C11-advance-beyond-long-metrics": ("C11", "skrifa",
        "numberOfHMetrics < numGlyphs, a glyph beyond the long metrics with a non-zero advance delta",
        "C11 quick: synthetic HVAR fonts with fewer long metrics than glyphs (IvsTrace!THvar: HmtxAdvance fallback plus delta)"),
    "C13-singular-transform-early-return": ("C13", "skrifa",
        "a transform paint with determinant 0 seen by the client painter (PaintScale with a zero factor, a rank-one PaintTransform)",
        "missed at first (the transform kind was represented by PaintTranslate only); caught after representing it by five members incl. singular ones (scale 0 x 1, rank-one matrix, uniform scale 0): unbalanced push_transform, PaintTrace rejects"),
    "C13-colrglyph-depth-reset": ("C13", "skrifa",
        "more than 64 nested paints spread over a PaintColrGlyph chain",
        "C13 quick: chains of up to 66 nodes over every paint kind incl. colrglyph; PaintTrace requires the depth error"),
    "C16-ppf2-split-record2-devices": ("C16", "write-fonts",
        "a PairPos format 2 subtable beyond 64 KiB that is split, with distinct device tables in both value records",
        "C16 quick: big class-pair lookups with device tables in both value records (added in round 3 for the same mechanism)"),
    "C16-class-value-format2-from-record1": ("C16", "write-fonts",
        "class rules where a second-glyph value record has a field that no first-glyph record of the subtable has",
        "C16 quick: random small class rule sets with eight-field value records; LayoutTrace compares the specification's Lookup with the rules"),
    "C17-composite-2x2-skip-4-bytes": ("C17", "klippa",
        "a kept composite glyph with a component carrying a 2x2 transform (glyf_components.ttf)",
        "C17 quick: corpus requests and everything-subsets; outline comparison"),
    "C17-vardata-region-order": ("C17", "klippa",
        "an HVAR variation-data subtable with >= 2 word-sized columns of which the request makes an earlier one byte-sized (AnekBangla-subset.ttf)",
        "C17 quick: corpus requests on variable fonts compared at non-default locations (advance differs)"),
    "C12-reconfigure-coords-not-shrunk": ("C12", "skrifa",
        "a HintingInstance reconfigured from a location with more effective coordinates to one with fewer (non-default to default)",
        "C12 quick: history replay over the catalogue (non-default variable configurations followed by default ones) differs from a fresh instance"),
    "C12-unhinted-zero-location-coords": ("C12", "skrifa",
        "an unhinted draw of a variable glyf font with an explicit all-zero location at a real ppem",
        "missed at first (the zero-location variant compared hinted instances only); caught after adding unhinted draws with no location vs an all-zero one at eight integral and fractional sizes for every variable font of the catalogue"),
}

bad = 0
for d, (prop, crate, needs, caught) in sorted(NOTES.items()):
    path = os.path.join(ROOT, d)
    log = os.path.join(path, "confirm.log")
    res = None
    if os.path.exists(log):
        for line in open(log, errors="replace"):
            if line.startswith("RESULT "):
                res = line.strip()
    m = re.match(r"RESULT demo_without=0 demo_with=(\d+) suite_with=0", res or "")
    if not m or m.group(1) == "0":
        print("NOT CONFIRMED:", d, res)
        bad += 1
        continue
    check = prop
    if d == "C05-ppf2-split-device-links":
        prop = "C05"
    meta = {"breaks_property": prop, "needs": needs, "caught_by": caught, "crate": crate, "produced_by": R3,
            "confirmed": "tools/confirm_seeded.sh: %s (demo passes without the patch, fails with it; existing crate suite passes with it)" % res,
            "check_run": "tools/try_mutant.sh seeded/%s/patch.diff %s -> exit 1 with VIOLATION lines" % (d, check)}
    json.dump(meta, open(os.path.join(path, "meta.json"), "w"), indent=1)
    print("ok", d)
sys.exit(1 if bad else 0)
