#!/usr/bin/env python3
"""Writes meta.json for the round-5 seeded changes from the notes below and the RESULT line of each
directory's confirm.log (written by tools/confirm_seeded.sh). Refuses to write a meta for an unconfirmed change."""
import json, os, re, sys

ROOT = os.path.join(os.path.dirname(os.path.abspath(__file__)), "..", "seeded")
R2 = "independent sub-agent given only the property text and a scratch worktree (round 2)"
R3 = "independent sub-agent given only the property text and a scratch worktree (round 5)"
NOTES = {
    "C01-read-points-repeat-clamp": ("C01", "read-fonts",
        "a simple glyph whose flags contain a repeat run that starts after the first point and whose count reaches beyond the last point",
        "missed by the corpus mutations; caught after adding SimpleGlyph.tla (strict and as-written readings of simple glyph point data) and replaying its family on read_points_fast / points(): slice index panic on the members whose run is cut at the last point", "C01"),
    "C01-apply-blend-depth-check": ("C01", "read-fonts",
        "a CFF2 blend whose operand count lies between n * regions and n * (regions + 1)",
        "C01 quick (after the charstring replay was added to C01; C02 had it already): CharstringMC!Blends members with too few operands below the blend panic instead of StackUnderflow", "C01"),
    "C02-cff-hintmap-capacity": ("C02", "skrifa",
        "a hinted draw at a large size of a CFF glyph with a leading ghost stem and 48 further horizontal stems (95 edges in the map, then a pair)",
        "missed at first (no program had more than 7 stems and the charstring family was not drawn through skrifa); caught after adding CharstringMC!ManyStems (23..120 stems, leading ghost stems for the odd parity, one stem operator) and drawing every program as a glyph of a hand-assembled CFF font (fv-total cs skrifa, 1000 ppem added to the drive): index out of bounds in HintMap::insert", "C02"),
    "C02-ift-applied-flag-index": ("C02", "incremental-font-transfer",
        "a glyph keyed patch whose PatchInfo was selected on a font with a longer mapping table than the font it is applied to (applied bit beyond the table)",
        "missed at first (patch infos were always applied to the font they were selected on); caught by C18 - which carries the IFT part of C02's evidence - after adding mismatched tuples: every glyph keyed patch of the catalogue applied to copies of the font whose IFT / IFTX table is 1..160 bytes shorter", "C18"),
    "C17-vardata-region-index-original": ("C17", "klippa",
        "a subset in which a lower numbered HVAR variation region is dropped while a higher one stays in use (single characters of Comfortaa-Regular-new.ttf), measured off the default location",
        "missed at first (random requests of several characters and glyphs keep every region in use; 96 single-character requests still missed the few glyphs concerned); caught after requesting every character of every variable corpus font on its own (up to 1200 / 6000 per font): advance of U+004D differs at the non-default probes", "C17"),
    "C17-long-loca-gap-shadow": ("C17", "klippa",
        "retained glyph ids, gaps between kept glyphs and more than 128 KiB of kept outlines (long loca offsets)",
        "missed at first (requests were small or everything); caught after adding almost-everything requests that leave out every seventh glyph id with retained ids: glyphs after a gap draw the first outline of the font", "C17"),
    "C18-glyph-keyed-status-on-failure": ("C18", "incremental-font-transfer",
        "a group of glyph keyed patches one of which fails (decoder failure or damaged patch)",
        "C18 quick: group_path with the failing decoder requires the caller's status map to be as before after an error", "C18"),
    "C18-replace-with-dictionary": ("C18", "incremental-font-transfer",
        "a table keyed patch entry with REPLACE_TABLE for a table that exists in the base font, decoded by a decoder that honours the dictionary",
        "C18 quick: the harness decoder records the dictionary it is handed; IFTApply's replace entries must be decoded without one", "C18"),
    "C19-format1-inverted-contains-gid": ("C19", "incremental-font-transfer",
        "a format 1 mapping queried with an inverted code point set",
        "C19 quick: every IFT1MC member is queried with inclusive and inverted realisations of the same code point set; the offered sets differ", "C19"),
    "C19-design-space-all-axes": ("C19", "incremental-font-transfer",
        "an entry and a definition that both name two axes, overlapping on one and disjoint on the other",
        "missed at first (one design axis everywhere); caught after giving IFT.tla a second axis (SegOverlap per axis), the family MC_IFTEnumAx and two-axis random tables: offered sets differ from the specification's", "C19"),
    "C20-point-iter-plus-assign": ("C20", "read-fonts",
        "a simple glyph whose accumulated coordinates leave the 16-bit range, read through SimpleGlyph::points()",
        "C20 quick (after the SimpleGlyph.tla family was added to the strict replay): members with word deltas 0xFF80.. accumulate beyond i16: attempt to add with overflow", "C20"),
    "C20-delta-set-index-map-count-minus-1": ("C20", "read-fonts",
        "a DeltaSetIndexMap with mapCount 0 and any lookup through it",
        "C20 quick (after the HVAR copies whose advance map has mapCount 0 were added to the C11 harness, which the strict replay runs too): attempt to subtract with overflow in DeltaSetIndexMap::get", "C20"),
}

bad = 0
for d, (prop, crate, needs, caught, check) in sorted(NOTES.items()):
    path = os.path.join(ROOT, d)
    log = os.path.join(path, "confirm.log")
    res = None
    if os.path.exists(log):
        for line in open(log, errors="replace"):
            if line.startswith("RESULT "):
                res = line.strip()
    m = re.match(r"RESULT demo_without=0 demo_with=(\d+) suite_with=0", res or "")
    if not m or m.group(1) == "0":
        print("NOT CONFIRMED:", d, res)
        bad += 1
        continue
    meta = {"breaks_property": prop, "needs": needs, "caught_by": caught, "crate": crate, "produced_by": R3,
            "confirmed": "tools/confirm_seeded.sh: %s (demo passes without the patch, fails with it; existing crate suite passes with it)" % res,
            "check_run": "tools/try_mutant.sh seeded/%s/patch.diff %s -> exit 1 with VIOLATION lines" % (d, check)}
    json.dump(meta, open(os.path.join(path, "meta.json"), "w"), indent=1)
    print("ok", d)
sys.exit(1 if bad else 0)
