#!/usr/bin/env python3
"""Writes meta.json for the round-6 seeded changes from the notes below and the RESULT line of each
directory's confirm.log (written by tools/confirm_seeded.sh). Refuses to write a meta for an unconfirmed change."""
import json, os, re, sys

ROOT = os.path.join(os.path.dirname(os.path.abspath(__file__)), "..", "seeded")
R2 = "independent sub-agent given only the property text and a scratch worktree (round 2)"
R3 = "independent sub-agent given only the property text and a scratch worktree (round 6)"
NOTES = {
    "C19-design-space-size-span": ("C19", "incremental-font-transfer",
        "two invalidating entries that tie on code points and features, one of them with two disjoint design-space segments whose span exceeds the other's total length",
        "missed by the families of the time (one segment per entry and axis; the random tables rarely produce the tie); caught after adding the family MC_IFTEnumSeg - two invalidating entries that tie on code points and features with one, two or three (disjoint) segments each: the selected group differs from the specification's", "C19"),
    "C19-string-id-leading-zeros-stripped": ("C19", "incremental-font-transfer",
        "a mapping with id string data in which an id string starts with a zero byte",
        "C19 quick: the string-id members of the UriTemplate.tla family (ids 00, 00 01, ...; added while the agents worked) expand to other URIs than the specification's", "C19"),
    "C18-ignored-tables-marked-processed": ("C18", "incremental-font-transfer",
        "a glyph keyed patch whose table list names a table it does not apply to and that exists in the font",
        "missed at first (no catalogue patch listed a table that glyph keyed patches do not apply to); caught after every other glyph keyed patch also lists 'tab1': the table disappears from the patched font (frame condition of IFTApply.tla)", "C18"),
    "C18-zero-length-tables-not-copied": ("C18", "incremental-font-transfer",
        "a base font with a zero-length table that the patch does not name",
        "missed at first (every table of the base font had content); caught after adding an empty table 'tab0' to the catalogue's base font: it disappears from every patched font", "C18"),
    "C01-callgsubr-depth-not-counted": ("C01", "read-fonts",
        "a cycle (or a chain longer than the nesting limit) made of global subroutine calls only",
        "C01 quick: the CharstringMC!Calls members made of global subroutine calls only (chains of 11 / 12, local -> global -> global ...) end the child process or pass where the model refuses for nesting depth", "C01"),
    "C01-fdselect-partition-point": ("C01", "read-fonts",
        "an FDSelect of format 3 / 4 whose first range starts after glyph 0 (queried below it), or with no range",
        "missed at first (FDSelect was reached through the corpus CFF fonts only); caught after adding FdSelect.tla and replaying its 550 tables (no range, first range after glyph 0, unsorted ranges) on FdSelect::font_index: index out of bounds", "C01"),
    "C17-component-gid-high-byte-and": ("C17", "klippa",
        "a kept composite whose component is renumbered to an id of 256 or more with a bit in the high byte that the old id lacks (large subset without retained ids)",
        "caught by the thorough tier's almost-everything requests without retained ids; the quick tier missed it until those requests were run there too: composites draw other components than in the original (Roboto, Ubuntu, Comfortaa, BungeeColor, IndicTestHowrah)", "C17"),
}

bad = 0
for d, (prop, crate, needs, caught, check) in sorted(NOTES.items()):
    path = os.path.join(ROOT, d)
    log = os.path.join(path, "confirm.log")
    res = None
    if os.path.exists(log):
        for line in open(log, errors="replace"):
            if line.startswith("RESULT "):
                res = line.strip()
    m = re.match(r"RESULT demo_without=0 demo_with=(\d+) suite_with=0", res or "")
    if not m or m.group(1) == "0":
        print("NOT CONFIRMED:", d, res)
        bad += 1
        continue
    meta = {"breaks_property": prop, "needs": needs, "caught_by": caught, "crate": crate, "produced_by": R3,
            "confirmed": "tools/confirm_seeded.sh: %s (demo passes without the patch, fails with it; existing crate suite passes with it)" % res,
            "check_run": "tools/try_mutant.sh seeded/%s/patch.diff %s -> exit 1 with VIOLATION lines" % (d, check)}
    json.dump(meta, open(os.path.join(path, "meta.json"), "w"), indent=1)
    print("ok", d)
sys.exit(1 if bad else 0)
